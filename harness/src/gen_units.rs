//! Streams over the real database: C02 (dimensional algebra), C03 (conversions),
//! C09 (unit lists / durations), C10 (temperature scales).
//!
//! Each writes req.txt, aux.txt (one JSON object per request: what the property oracle in
//! checks/*.py needs), stats.json.
use crate::evalsess::{fmt_dim, fmt_numeric, new_context, req_line};
use crate::util::{Opts, Rng};
use rink_core::parsing::text_query::{Token, TokenIterator};
use rink_core::types::{Dimensionality, Number, Numeric};
use rink_core::{Context, Value};
use serde_json::json;
use std::collections::BTreeMap;
use std::io::Write;

pub struct Db {
    pub ctx: Context,
    /// plain unit names that lex as one identifier and evaluate to a Number
    pub names: Vec<String>,
    pub by_dim: BTreeMap<String, Vec<String>>,
    pub prefixes: Vec<String>,
}

fn lexes_as_self(name: &str) -> bool {
    let mut it = TokenIterator::new(name);
    match it.next() {
        Some(Token::Ident(s)) if s == name => matches!(it.next(), Some(Token::Eof)),
        _ => false,
    }
}

const RESERVED: &[&str] = &["of", "now", "ans", "ANS", "_", "factorize", "units", "search", "digits", "base", "hex", "oct", "bin",
    "frac", "fraction", "ratio", "sci", "scientific", "eng", "engineering", "hexadecimal", "octal", "binary", "base16", "base8", "base2",
    "int", "international", "UKSJJ", "UKB", "UKC", "UKK", "imperial", "british", "UK", "survey", "geodetic", "irish", "aust",
    "australian", "roman", "egyptian", "greek", "olympic", "for"];

pub fn eval_number(ctx: &Context, text: &str) -> Option<Number> {
    let mut it = TokenIterator::new(text).peekable();
    let e = rink_core::parsing::text_query::parse_expr(&mut it);
    match ctx.eval(&e) {
        Ok(Value::Number(n)) => Some(n),
        _ => None,
    }
}

impl Db {
    pub fn new() -> Db {
        let ctx = new_context();
        let mut names = vec![];
        let mut by_dim: BTreeMap<String, Vec<String>> = BTreeMap::new();
        let all: Vec<String> = ctx.registry.units.keys().cloned().chain(ctx.registry.base_units.iter().map(|b| b.to_string())).collect();
        for n in all {
            if !lexes_as_self(&n) || RESERVED.contains(&n.as_str()) || rink_core::ast::Function::from_name(&n).is_some() { continue; }
            if ctx.registry.substances.contains_key(&n) { continue; }
            if let Some(v) = eval_number(&ctx, &n) {
                by_dim.entry(fmt_dim(&v.unit)).or_default().push(n.clone());
                names.push(n);
            }
        }
        let prefixes = ctx.registry.prefixes.iter().map(|p| p.0.clone()).collect();
        Db { ctx, names, by_dim, prefixes }
    }
    pub fn lookup(&self, n: &str) -> Option<Number> { self.ctx.lookup(n) }

    /// a unit name, sometimes with a prefix and/or plural `s`
    pub fn rand_name(&self, rng: &mut Rng) -> String {
        let base = rng.pick(&self.names).clone();
        let mut n = base.clone();
        if rng.chance(1, 4) { n = format!("{}{}", rng.pick(&self.prefixes), n); }
        if rng.chance(1, 6) { n.push('s'); }
        if n != base && (!lexes_as_self(&n) || eval_number(&self.ctx, &n).is_none()) { return base; }
        n
    }
}

fn rat(v: &Numeric) -> String { fmt_numeric(v) }

fn coef(rng: &mut Rng) -> String {
    match rng.below(8) {
        0 => "1".into(),
        1 => format!("{}", 1 + rng.below(999)),
        2 => format!("{}.{}", rng.below(100), 1 + rng.below(99)),
        3 => format!("{}|{}", 1 + rng.below(50), 1 + rng.below(50)),
        4 => format!("{}e{}", 1 + rng.below(9), rng.range(-12, 12)),
        5 => format!("-{}", 1 + rng.below(20)),
        6 => "0x1f".into(),
        _ => format!("{}", 2 + rng.below(9)),
    }
}

// ------------------------------------------------------------------------------------ C02

/// dimensional algebra over exponent vectors: Err(()) = the algebra refuses the expression
type DV = BTreeMap<String, i64>;

fn dv_of(d: &Dimensionality) -> DV { d.iter().map(|(k, p)| (k.to_string(), *p)).collect() }
fn dv_mul(a: &DV, b: &DV, sign: i64) -> DV {
    let mut r = a.clone();
    for (k, p) in b { let e = r.entry(k.clone()).or_insert(0); *e += sign * p; }
    r.retain(|_, p| *p != 0);
    r
}
fn dv_fmt(a: &DV) -> String {
    if a.is_empty() { "-".into() } else { a.iter().map(|(k, p)| format!("{}:{}", crate::evalsess::enc_name(k), p)).collect::<Vec<_>>().join(",") }
}

struct G<'a> { db: &'a Db, rng: &'a mut Rng, fstats: BTreeMap<String, u64> }

impl<'a> G<'a> {
    /// returns (text, algebra result). Text is fully parenthesised where needed.
    fn expr(&mut self, depth: u32) -> (String, Result<DV, ()>) {
        if depth == 0 || self.rng.chance(1, 4) {
            return self.leaf();
        }
        let k = self.rng.below(23);
        *self.fstats.entry(format!("op{}", k)).or_insert(0) += 1;
        match k {
            // bit operations: both operands dimensionless (integers; anything else is refused for its value)
            20 | 21 => { let (a, da) = if self.rng.chance(1, 2) { (format!("{}", self.rng.below(256)), Ok(DV::new())) } else { self.expr(depth - 1) };
                let (b, db) = if self.rng.chance(1, 2) { (format!("{}", self.rng.below(256)), Ok(DV::new())) } else { self.expr(depth - 1) };
                let op = *self.rng.pick(&["and", "or", "xor"]);
                let r = match (&da, &db) { (Ok(x), Ok(y)) if x.is_empty() && y.is_empty() => Ok(DV::new()), _ => Err(()) };
                (format!("({}) {} ({})", a, op, b), r) }
            // shifts: the count is dimensionless, the result keeps the left operand's dimensionality
            22 => { let (a, da) = self.expr(depth - 1);
                // (a small literal count, or a dimensioned count, which is refused before anything is computed)
                let (b, db): (String, Result<DV, ()>) = if self.rng.chance(2, 3) { (format!("{}", self.rng.range(-4, 9)), Ok(DV::new())) } else {
                    let n = self.db.rand_name(self.rng);
                    match self.db.lookup(&n) { Some(v) if !v.unit.is_dimensionless() => (n, Ok(dv_of(&v.unit))), _ => ("3".to_string(), Ok(DV::new())) } };
                let op = *self.rng.pick(&["<<", ">>"]);
                let r = match (&da, &db) { (Ok(x), Ok(y)) if y.is_empty() => Ok(x.clone()), _ => Err(()) };
                (format!("({}) {} ({})", a, op, b), r) }
            0 | 1 => { let (a, da) = self.expr(depth - 1); let (b, db) = self.expr(depth - 1);
                (format!("({}) * ({})", a, b), da.and_then(|x| db.map(|y| dv_mul(&x, &y, 1)))) }
            2 => { let (a, da) = self.expr(depth - 1); let (b, db) = self.expr(depth - 1);
                (format!("({}) ({})", a, b), da.and_then(|x| db.map(|y| dv_mul(&x, &y, 1)))) }
            3 | 4 => { let (a, da) = self.expr(depth - 1); let (b, db) = self.expr(depth - 1);
                (format!("({}) / ({})", a, b), da.and_then(|x| db.map(|y| dv_mul(&x, &y, -1)))) }
            5 | 6 | 7 => {
                // sum / difference / mod: half of the time make the right side conformable
                let (a, da) = self.expr(depth - 1);
                let (b, db) = if self.rng.chance(1, 2) { (format!("{} ({})", coef(self.rng), a.clone()), da.clone()) } else { self.expr(depth - 1) };
                let op = *self.rng.pick(&["+", "-", "mod"]);
                let r = match (&da, &db) { (Ok(x), Ok(y)) => if x == y { Ok(x.clone()) } else { Err(()) }, _ => Err(()) };
                (format!("({}) {} ({})", a, op, b), r)
            }
            8 | 9 => { let (a, da) = self.expr(depth - 1); let e = self.rng.range(-3, 4);
                let r = da.map(|x| { let mut y: DV = x.iter().map(|(k, p)| (k.clone(), p * e)).collect(); y.retain(|_, p| *p != 0); y });
                (format!("({})^{}", a, e), r) }
            10 if self.rng.chance(1, 3) => { // a negative or non-unit fraction as exponent: only a dimensionless base has such a power
                let (a, da) = self.expr(depth - 1);
                let e = *self.rng.pick(&["-1|2", "-1|3", "2|3", "3|2", "-2|3", "0.5 + 1", "-0.5"]);
                let r = da.and_then(|x| if x.is_empty() { Ok(DV::new()) } else { Err(()) });
                (format!("({})^({})", a, e), r) }
            10 => { // roots
                let (a, da) = self.expr(depth - 1); let n = self.rng.range(2, 3);
                let r = da.and_then(|x| if x.values().all(|p| p % n == 0) { Ok(x.iter().map(|(k, p)| (k.clone(), p / n)).collect()) } else { Err(()) });
                if n == 2 && self.rng.chance(1, 2) { (format!("sqrt({})", a), r) } else { (format!("({})^(1|{})", a, n), r) }
            }
            11 => { let (a, da) = self.expr(depth - 1);
                // (a zero argument does not make a mismatch of dimensionalities acceptable)
                let (a, da) = if self.rng.chance(1, 5) { (format!("0 ({})", a), da) } else { (a, da) };
                let (b, db) = if self.rng.chance(2, 3) { (format!("{} ({})", coef(self.rng), a.clone()), da.clone()) } else if self.rng.chance(1, 2) { let (b, db) = self.expr(depth - 1); (format!("0 ({})", b), db) } else { self.expr(depth - 1) };
                let f = *self.rng.pick(&["hypot", "atan2"]);
                let r = match (&da, &db) { (Ok(x), Ok(y)) if x == y => if f == "hypot" { Ok(x.clone()) } else { Ok([("radian".to_string(), 1)].into_iter().collect()) }, _ => Err(()) };
                (format!("{}({}, {})", f, a, b), r) }
            12 => { let (a, da) = if self.rng.chance(1, 2) { let c = coef(self.rng); (format!("{} {}", c, self.rng.pick(&["radian", "degree", "1", "arcminute"])), Ok(DV::new())).clone() }
                    else if self.rng.chance(1, 2) {
                        // near-misses of the angle gate: powers and products of the angle unit
                        let c = coef(self.rng);
                        (format!("{} {}", c, self.rng.pick(&["radian^2", "radian^-1", "degree degree", "1 / radian", "radian^3", "steradian", "radian second", "radian / radian", "degree / radian", "radian^0"])), Ok(DV::new()))
                    } else { self.expr(depth - 1) };
                let f = *self.rng.pick(&["sin", "cos", "tan"]);
                // re-derive the operand's algebra (the `degree`/`radian` names carry the angle dimension)
                let da = if let Some(n) = eval_number(&self.db.ctx, &a) { let _ = da; Ok(dv_of(&n.unit)) } else { da };
                let rad: DV = [("radian".to_string(), 1)].into_iter().collect();
                let r = da.and_then(|x| if x.is_empty() || x == rad { Ok(DV::new()) } else { Err(()) });
                (format!("{}({})", f, a), r) }
            13 => { let (a, da) = if self.rng.chance(1, 2) { (format!("0.{}", 1 + self.rng.below(9)), Ok(DV::new())) } else { self.expr(depth - 1) };
                let f = *self.rng.pick(&["asin", "acos", "atan"]);
                let r = da.and_then(|x| if x.is_empty() { Ok([("radian".to_string(), 1)].into_iter().collect()) } else { Err(()) });
                (format!("{}({})", f, a), r) }
            14 => { let (a, da) = self.expr(depth - 1);
                let f = *self.rng.pick(&["exp", "ln", "log2", "log10", "sinh", "cosh", "tanh", "asinh", "acosh", "atanh"]);
                (format!("{}({})", f, a), da) }
            15 => { let (a, da) = self.expr(depth - 1); let (b, db) = if self.rng.chance(2, 3) { ("10".to_string(), Ok(DV::new())) } else { self.expr(depth - 1) };
                let r = match (&da, &db) { (Ok(x), Ok(y)) => if y.is_empty() { Ok(x.clone()) } else { Err(()) }, _ => Err(()) };
                (format!("log({}, {})", a, b), r) }
            16 => { let (a, da) = self.expr(depth - 1); (format!("-({})", a), da) }
            17 => { let (a, da) = self.expr(depth - 1); let (b, db) = self.expr(depth - 1);
                (format!("({})|({})", a, b), da.and_then(|x| db.map(|y| dv_mul(&x, &y, -1)))) }
            18 => { // exponent carrying a dimension is refused
                let (a, _) = self.expr(depth - 1); let n = self.db.rand_name(self.rng);
                let dn = self.db.lookup(&n).map(|v| v.unit.is_dimensionless()).unwrap_or(true);
                if dn { self.leaf() } else { (format!("({})^({})", a, n), Err(())) } }
            _ => self.leaf(),
        }
    }
    fn leaf(&mut self) -> (String, Result<DV, ()>) {
        match self.rng.below(10) {
            0 => { let c = coef(self.rng); (c, Ok(DV::new())) }
            1 => { let q = *self.rng.pick(&["'widget'", "'foo bar'", "'a'", "'zz9'"]);
                (q.to_string(), Ok([(q.trim_matches('\'').to_string(), 1)].into_iter().collect())) }
            _ => {
                let n = self.db.rand_name(self.rng);
                let d = self.db.lookup(&n).map(|v| dv_of(&v.unit)).ok_or(());
                if self.rng.chance(1, 3) { (format!("{} {}", coef(self.rng), n), d) } else { (n, d) }
            }
        }
    }
}

pub fn run_c02(o: &Opts) -> i32 {
    let db = Db::new();
    let mut rng = Rng::new(o.seed);
    let mut req = o.writer("req.txt");
    let mut aux = o.writer("aux.txt");
    let n = if o.thorough { 300_000 } else { 12_000 };
    let mut samples = vec![];
    let (mut nerr, mut nok) = (0u64, 0u64);
    let mut g = G { db: &db, rng: &mut rng, fstats: BTreeMap::new() };
    // fixed corpus first
    for (t, d) in [("meter^0", "-"), ("(m^2)^0 + 1", "-"), ("m^0 s", "s:1"), ("'a'^0", "-"),
                   ("5 and 3 meter", "refuse"), ("3 meter and 5", "refuse"), ("12 second xor 5", "refuse"), ("0xff or 3 byte", "refuse"), ("meter and meter", "refuse"), ("6 and 3", "-"), ("6 m << 2", "m:1"), ("6 << 2 m", "refuse"),
                   ("(4 m^2)^(-1|2)", "refuse"), ("(1 / s^2)^(-1|2)", "refuse"), ("(0 m)^2", "m:2"), ("(5 kg - 5 kg)^3", "kg:3"), ("(0 m)^-1", "refuse"), ("4^(-1|2)", "-"), ("hypot(3 m, 0 s)", "refuse"), ("hypot(0 m, 4 kg)", "refuse"), ("hypot(0, 5 W)", "refuse"), ("atan2(0 m, 1 s)", "refuse"), ("0 m + 0 s", "refuse"), ("0 m - 1 s", "refuse"), ("0 m mod 3 s", "refuse"), ("hypot(0 m, 0 m)", "m:1")] {
        writeln!(req, "{}", req_line(t)).unwrap();
        writeln!(aux, "{}", json!({"alg": d})).unwrap();
    }
    // an exponent that leaves i64 is refused, never dropped or wrapped: x = u^(2^62 - 2^32 + 1), x x fits, x x x does not
    for u in ["meter", "second", "'widget'"] {
        let x = format!("(({u}^2147483647)^2147483647)", u = u);
        for t in ["{x} * {x} * {x}", "{x} * {x} * {x} * second", "{x} {x} {x} kg", "1 / {x} / {x} / {x}", "kg / ({x} {x} {x})", "({x} {x})^2", "({x} * {x} * {x}) / {x}", "{x} * {x} * {x} / ({x} * {x} * {x})",
                  "({x} {x})^-2", "sqrt({x} {x} {x})", "hypot({x} {x} {x}, {x} {x} {x})", "{x} {x} {x} + {x} {x} {x}", "{x} {x} / {x}^-1", "(1 / {x} / {x}) / {x}"] {
            writeln!(req, "{}", req_line(&t.replace("{x}", &x))).unwrap();
            writeln!(aux, "{}", json!({"alg": "refuse"})).unwrap();
        }
    }
    let mut k = 0;
    while k < n {
        let depth = 1 + g.rng.below(4) as u32;
        let (text, alg) = g.expr(depth);
        if text.chars().count() > 450 { continue; }
        k += 1;
        writeln!(req, "{}", req_line(&text)).unwrap();
        match &alg { Ok(d) => { nok += 1; writeln!(aux, "{}", json!({"alg": dv_fmt(d)})).unwrap(); } Err(()) => { nerr += 1; writeln!(aux, "{}", json!({"alg": "refuse"})).unwrap(); } }
        if samples.len() < 10 && k % 501 == 1 { samples.push(text); }
    }
    // unit lists: every member must have the dimensionality of the value; one foreign member at any position refuses
    let groups: Vec<&Vec<String>> = db.by_dim.values().filter(|v| v.len() >= 2).collect();
    let nlists = n / 30;
    for _ in 0..nlists {
        let gi = g.rng.below(groups.len() as u64) as usize;
        let grp = groups[gi];
        let len = 2 + g.rng.below(4) as usize;
        let mut members: Vec<String> = (0..len).map(|_| g.rng.pick(grp).clone()).collect();
        let src = format!("{} {}", coef_pos(g.rng), g.rng.pick(grp));
        let other = groups[(gi + 1 + g.rng.below(groups.len() as u64 - 1) as usize) % groups.len()];
        let pos = g.rng.below(len as u64) as usize;
        members[pos] = g.rng.pick(other).clone();
        let sep = *g.rng.pick(&[";", "; ", ", "]);
        let text = format!("{} -> {}", src, members.join(sep));
        if text.chars().count() > 450 { continue; }
        writeln!(req, "{}", req_line(&text)).unwrap();
        writeln!(aux, "{}", json!({"alg": "refuse"})).unwrap();
        nerr += 1;
    }
    let fstats = g.fstats.clone();
    req.flush().unwrap(); aux.flush().unwrap();
    crate::util::write_json(&format!("{}/stats.json", o.out), &json!({"total": n + nlists, "unit_lists_with_a_foreign_member": nlists, "algebra_defined": nok, "algebra_refuses": nerr,
        "unit_names": db.names.len(), "dimensionalities": db.by_dim.len(), "operators": fstats, "samples": samples}));
    0
}

// ------------------------------------------------------------------------------------ C03

fn coef_pos(rng: &mut Rng) -> String {
    // sums and differences are not among the target shapes C03 quantifies over: no signs here
    loop { let c = coef(rng); if !c.starts_with('-') { return c; } }
}

fn compound(db: &Db, rng: &mut Rng, depth: u32) -> String {
    match rng.below(if depth == 0 { 3 } else { 8 }) {
        0 | 1 => db.rand_name(rng),
        // (now and then a constant far outside the range of a machine float: conversions are exact rational arithmetic)
        2 => if rng.chance(1, 8) { format!("{}e{} {}", 1 + rng.below(9), *rng.pick(&[-400i64, 400, -330, 309, -1000, 1000]), db.rand_name(rng)) } else { format!("{} {}", coef_pos(rng), db.rand_name(rng)) },
        3 => format!("{} {}", compound(db, rng, depth - 1), compound(db, rng, depth - 1)),
        4 => format!("{} / ({})", compound(db, rng, depth - 1), compound(db, rng, depth - 1)),
        5 => format!("({})^{}", compound(db, rng, depth - 1), rng.range(-2, 3)),
        6 => format!("{} * {}", compound(db, rng, depth - 1), compound(db, rng, depth - 1)),
        _ => format!("{}|{} {}", 1 + rng.below(9), 1 + rng.below(9), db.rand_name(rng)),
    }
}

/// true when every identifier of the query is a database name with an exact (rational) value:
/// such a query is built from exact literals, exact units and integer powers only, so a float
/// anywhere in the reply is a loss of exactness (the registry stores a few float constants).
fn exact_text(db: &Db, text: &str) -> bool {
    let mut it = TokenIterator::new(text);
    loop {
        match it.next() {
            Some(Token::Eof) | None => return true,
            Some(Token::Ident(s)) => {
                if s == "zork" { continue; }
                match db.ctx.registry.units.get(&s).map(|n| n.value.clone()).or_else(|| db.lookup(&s).map(|n| n.value)) {
                    Some(Numeric::Rational(_)) => {}
                    _ => return false,
                }
            }
            _ => {}
        }
    }
}

pub fn run_c03(o: &Opts) -> i32 {
    let db = Db::new();
    let mut rng = Rng::new(o.seed);
    let mut req = o.writer("req.txt");
    let mut aux = o.writer("aux.txt");
    let mut emit = |text: &str, a: serde_json::Value| { writeln!(req, "{}", req_line(text)).unwrap(); writeln!(aux, "{}", a).unwrap(); };
    let mut total = 0u64; let mut conform = 0u64;
    let mut samples = vec![];
    // exhaustive over ordered pairs of conformable units: thorough = all, quick = sampled
    let dims: Vec<&String> = db.by_dim.keys().collect();
    for d in dims {
        let us = &db.by_dim[d];
        if us.len() < 2 { continue; }
        for a in us { for b in us {
            if !o.thorough && !rng.chance(1, (us.len() as u64 * us.len() as u64 / 40).max(1)) { continue; }
            let (va, vb) = (db.lookup(a).unwrap(), db.lookup(b).unwrap());
            let c = coef_pos(&mut rng);
            let text = format!("{} {} -> {}", c, a, b);
            let src = eval_number(&db.ctx, &format!("{} {}", c, a));
            emit(&text, json!({"kind": "pair", "v": src.as_ref().map(|s| rat(&s.value)), "t": rat(&vb.value), "same": va.unit == vb.unit, "tdim": fmt_dim(&vb.unit), "exact_inputs": exact_text(&db, &text)}));
            total += 1; conform += 1;
        } }
    }
    // random compound sources / targets
    let n = if o.thorough { 120_000 } else { 8_000 };
    for k in 0..n {
        let src = compound(&db, &mut rng, 2);
        let (tgt, inline) = match rng.below(6) {
            0 => { // conformable by construction: target = coefficient * source-shaped expression
                (format!("{} ({})", 1 + rng.below(99), compound(&db, &mut rng, 1)), false) }
            1 => (format!("zork = {}", compound(&db, &mut rng, 1)), true),
            _ => (compound(&db, &mut rng, 2), false),
        };
        // make conformable often: reuse the source's own unit expression as the target
        let tgt = if !inline && rng.chance(1, 3) { format!("{} ({})", 2 + rng.below(7), src) } else { tgt };
        // zero-valued targets: conformable -> "division by zero", otherwise still a conformance error
        let tgt = if !inline && rng.chance(1, 25) { format!("0 ({})", tgt) } else { tgt };
        let text = format!("{} -> {}", src, tgt);
        if text.chars().count() > 450 { continue; }
        let tgt_expr = if inline { tgt.splitn(2, '=').nth(1).unwrap().to_string() } else { tgt.clone() };
        let (sv, tv) = (eval_number(&db.ctx, &src), eval_number(&db.ctx, &tgt_expr));
        let a = match (&sv, &tv) {
            (Some(s), Some(t)) => { if s.unit == t.unit { conform += 1; }
                json!({"kind": "compound", "v": rat(&s.value), "t": rat(&t.value), "same": s.unit == t.unit, "tdim": fmt_dim(&t.unit), "exact_inputs": exact_text(&db, &text),
                       "recip": (s * t).map(|p| p.unit.is_dimensionless()).unwrap_or(false)}) }
            _ => json!({"kind": "compound", "v": null, "t": null}),
        };
        emit(&text, a);
        total += 1;
        if samples.len() < 10 && k % 701 == 3 { samples.push(text); }
    }
    // fixed corpus: unit names that read like time zones in another letter case; exponents of magnitude 2^62
    {
        let big = |u: &str, sign: &str| format!("(({u}^1073741824)^1073741824)^{sign}4", u = u, sign = sign);
        let mut lines: Vec<(String, String, String)> = vec![];
        for (src, tgt) in [("0 m / s", "km/hour"), ("(0 m)/(3 s)", "mph"), ("(2 kg - 2000 g)/m^3", "g/cm^3"), ("0 m", "ft"), ("0 kg m / s^2", "N"), ("0 m / s", "percent"), ("(0 m)/(3 s)", "1"), ("5 m", "m^0 m"), ("5 m^2", "m^0 m"), ("(3 m)^0", "1"),
                           ("3^50000 m", "3^49999 m"), ("2^70001 s", "2^70000 s"), ("10^20000 kg", "10^19999 g"), ("7^30000 m", "7^29998 m"), ("1 g", "uct"), ("3 St", "mSt"), ("3 St", "MSt"), ("3 St", "hSt"), ("1 St", "ESt"), ("5 carat", "uct"), ("1 m^2/s", "mSt")] { lines.push((src.to_string(), tgt.to_string(), tgt.to_string())); }
        for u in ["m", "s"] { for sg in ["", "-"] {
            let x = big(u, sg);
            lines.push((format!("6 {}", x), format!("2 {}", x), format!("2 {}", x)));
            lines.push((format!("{} / {}", x, x), "1".to_string(), "1".to_string()));
            lines.push((format!("6 {} {}", x, u), format!("3 {} {}", u, x), format!("3 {} {}", u, x)));
        } }
        for (src, tgt, tgt_expr) in lines {
            let (sv, tv) = (eval_number(&db.ctx, &src), eval_number(&db.ctx, &tgt_expr));
            let a = match (&sv, &tv) {
                (Some(s), Some(t)) => json!({"kind": "compound", "v": rat(&s.value), "t": rat(&t.value), "same": s.unit == t.unit, "tdim": fmt_dim(&t.unit), "exact_inputs": false, "recip": false}),
                _ => json!({"kind": "compound", "v": null, "t": null}),
            };
            emit(&format!("{} -> {}", src, tgt), a);
            total += 1;
        }
    }
    drop(emit);
    req.flush().unwrap(); aux.flush().unwrap();
    crate::util::write_json(&format!("{}/stats.json", o.out), &json!({"total": total, "conformable": conform, "samples": samples,
        "dimensionalities_with_pairs": db.by_dim.values().filter(|v| v.len() > 1).count()}));
    0
}

// ------------------------------------------------------------------------------------ C09

fn rand_value(rng: &mut Rng) -> String {
    match rng.below(12) {
        // beyond the range and precision of a machine float (the decomposition is exact rational arithmetic)
        10 => format!("{}{}e{}", if rng.chance(1, 2) { "-" } else { "" }, 1 + rng.below(99), *rng.pick(&[309i64, 400, 1000, -330, -400, 308, -324])),
        11 => format!("{}.{}", rng.next(), rng.next()),
        0 => "0".into(),
        1 => format!("{}", 1 + rng.below(100000)),
        2 => format!("-{}", 1 + rng.below(100000)),
        3 => format!("{}.{}", rng.below(1000), rng.below(1000000)),
        4 => format!("-{}|{}", 1 + rng.below(999), 1 + rng.below(999)),
        5 => format!("{}e{}", 1 + rng.below(99), rng.range(-20, 25)),
        6 => format!("{}|{}", 1 + rng.below(99999), 1 + rng.below(99999)),
        7 => "1e-30".into(),
        8 => format!("{}", rng.next()),
        _ => format!("-{}.5e{}", rng.below(10), rng.range(-3, 12)),
    }
}

pub fn run_c09(o: &Opts) -> i32 {
    let db = Db::new();
    let mut rng = Rng::new(o.seed);
    let mut req = o.writer("req.txt");
    let mut aux = o.writer("aux.txt");
    let mut total = 0u64;
    let mut samples = vec![];
    let groups: Vec<&Vec<String>> = db.by_dim.values().filter(|v| v.len() >= 2).collect();
    let n = if o.thorough { 150_000 } else { 10_000 };
    // corpus: zero-valued member after `ans`, descending/ascending/repeats
    for t in ["1 hour -> hour;minute;second", "-1000 s -> minute;second", "1 mile -> yard;foot;inch", "3 foot -> inch;foot", "0 m -> km;m",
              "1e309 m -> km;m;mm", "1e300 lightyear -> parsec;m", "-1e400 s -> hour;minute;second", "1e-400 m -> m;mm", "-2 hour -> hour;minute", "-3.5 hour -> hour;minute;second"] {
        writeln!(req, "{}", req_line(t)).unwrap();
        let parts: Vec<&str> = t.split("->").collect();
        let v = eval_number(&db.ctx, parts[0]).unwrap();
        let us: Vec<String> = parts[1].trim().split(';').map(|u| rat(&db.lookup(u.trim()).unwrap().value)).collect();
        writeln!(aux, "{}", json!({"kind": "list", "v": rat(&v.value), "units": us, "conform": true})).unwrap();
        total += 1;
    }
    for k in 0..n {
        let g = *rng.pick(&groups);
        let len = 2 + rng.below(5) as usize;
        let mut us: Vec<String> = (0..len).map(|_| rng.pick(g).clone()).collect();
        if rng.chance(1, 3) { // descending order by value (the customary use)
            us.sort_by(|a, b| { let (x, y) = (db.lookup(a).unwrap().value, db.lookup(b).unwrap().value); y.partial_cmp(&x).unwrap_or(std::cmp::Ordering::Equal) });
        }
        let mut conform = true;
        if rng.chance(1, 12) { // a non-conformable member
            let other = *rng.pick(&groups);
            if !std::ptr::eq(other, g) { let i = rng.below(len as u64) as usize; us[i] = rng.pick(other).clone(); conform = false; }
        }
        // value: multiple of one of the group's units, or of a unit of another dimensionality
        let vu = if rng.chance(1, 12) { conform = false; let og = *rng.pick(&groups); rng.pick(og).clone() } else { rng.pick(g).clone() };
        let vtext = format!("{} {}", rand_value(&mut rng), vu);
        let sep = *rng.pick(&[";", ",", "; ", ", "]);
        let text = format!("{} -> {}", vtext, us.join(sep));
        if text.chars().count() > 450 { continue; }
        let v = eval_number(&db.ctx, &vtext);
        let uvals: Vec<Option<Number>> = us.iter().map(|u| db.lookup(u)).collect();
        let a = match (&v, uvals.iter().all(|u| u.is_some())) {
            (Some(v), true) => {
                let first = uvals[0].as_ref().unwrap();
                let conf = uvals.iter().all(|u| u.as_ref().unwrap().unit == first.unit) && v.unit == first.unit;
                let _ = conform;
                json!({"kind": "list", "v": rat(&v.value), "units": uvals.iter().map(|u| rat(&u.as_ref().unwrap().value)).collect::<Vec<_>>(), "conform": conf})
            }
            _ => json!({"kind": "skip"}),
        };
        writeln!(req, "{}", req_line(&text)).unwrap();
        writeln!(aux, "{}", a).unwrap();
        total += 1;
        if samples.len() < 8 && k % 997 == 5 { samples.push(text); }
    }
    // automatic duration breakdown: any time value
    let tunits: Vec<String> = db.by_dim.get("s:1").cloned().unwrap_or_default();
    let dur: Vec<String> = ["year", "week", "day", "hour", "minute", "second"].iter().map(|u| rat(&db.lookup(u).unwrap().value)).collect();
    let nd = if o.thorough { 60_000 } else { 5_000 };
    for k in 0..nd {
        let text = format!("{} {}", rand_value(&mut rng), rng.pick(&tunits));
        let v = eval_number(&db.ctx, &text);
        writeln!(req, "{}", req_line(&text)).unwrap();
        match v { Some(v) => writeln!(aux, "{}", json!({"kind": "duration", "v": rat(&v.value), "units": dur})).unwrap(), None => writeln!(aux, "{}", json!({"kind": "skip"})).unwrap() }
        total += 1;
        if samples.len() < 12 && k % 997 == 5 { samples.push(text); }
    }
    req.flush().unwrap(); aux.flush().unwrap();
    crate::util::write_json(&format!("{}/stats.json", o.out), &json!({"total": total, "groups": groups.len(), "samples": samples}));
    0
}

// ------------------------------------------------------------------------------------ C10

pub const SCALES: [(&str, &[&str]); 6] = [
    ("C", &["degC", "°C", "celsius", "℃"]),
    ("F", &["degF", "°F", "fahrenheit", "℉"]),
    ("Re", &["degRé", "°Ré", "degRe", "°Re", "réaumur", "reaumur"]),
    ("Ro", &["degRø", "°Rø", "degRo", "°Ro", "rømer", "romer"]),
    ("De", &["degDe", "°De", "delisle"]),
    ("N", &["degN", "°N", "degnewton"]),
];

fn temp_value(rng: &mut Rng) -> (String, String) {
    // (text, exact value as n/d)
    use num_bigint::BigInt; use num_rational::BigRational;
    // magnitudes beyond every machine type (f64 overflows above 1.8e308, underflows below 5e-324): exact arithmetic
    // has no such limits
    if rng.chance(1, 10) {
        let e = *rng.pick(&[19u32, 39, 309, 400, 1000]);
        let m = 1 + rng.below(9);
        let neg = rng.chance(1, 3);
        let p = num_traits::pow(BigInt::from(10), e as usize);
        return if rng.chance(1, 2) {
            (format!("{}{}e{}", if neg { "-" } else { "" }, m, e), format!("{}{}/1", if neg { "-" } else { "" }, BigInt::from(m) * &p))
        } else {
            (format!("({}{}|1e{})", if neg { "-" } else { "" }, m, e), { let q = BigRational::new(BigInt::from(if neg { -(m as i64) } else { m as i64 }), p); format!("{}/{}", q.numer(), q.denom()) })
        };
    }
    let (n, d): (i64, i64) = match rng.below(8) {
        0 => (0, 1), 1 => (rng.range(-500, 500), 1), 2 => (rng.range(-100000, 100000), 1000), 3 => (-27315, 100),
        4 => (rng.range(-1_000_000_000, 1_000_000_000), 1 + rng.below(1000) as i64), 5 => (100, 1), 6 => (rng.range(-9, 9), 7), _ => (rng.next() as i64 / 4, 1 + rng.below(1_000_000) as i64),
    };
    let q = BigRational::new(BigInt::from(n), BigInt::from(d));
    let text = if d == 1 { format!("{}", n) } else { format!("({}|{})", n, d) };
    (text, format!("{}/{}", q.numer(), q.denom()))
}

pub fn run_c10(o: &Opts) -> i32 {
    let mut rng = Rng::new(o.seed);
    let mut req = o.writer("req.txt");
    let mut aux = o.writer("aux.txt");
    let mut total = 0u64;
    let mut samples = vec![];
    let reps = if o.thorough { 40 } else { 3 };
    for (s1, sp1) in SCALES.iter() { for (s2, sp2) in SCALES.iter() {
        for a in sp1.iter() { for b in sp2.iter() { for _ in 0..reps {
            let (xt, xv) = temp_value(&mut rng);
            let text = format!("{} {} -> {}", xt, a, b);
            writeln!(req, "{}", req_line(&text)).unwrap();
            writeln!(aux, "{}", json!({"kind": "pair", "x": xv, "from": s1, "to": s2})).unwrap();
            total += 1;
            if samples.len() < 8 && total % 211 == 1 { samples.push(text); }
        } } }
    } }
    // absolute value of `x scale` in kelvin; refusals
    for (s1, sp1) in SCALES.iter() { for a in sp1.iter() { for _ in 0..reps * 3 {
        let (xt, xv) = temp_value(&mut rng);
        writeln!(req, "{}", req_line(&format!("{} {}", xt, a))).unwrap();
        writeln!(aux, "{}", json!({"kind": "abs", "x": xv, "from": s1})).unwrap();
        writeln!(req, "{}", req_line(&format!("{} {} -> kelvin", xt, a))).unwrap();
        writeln!(aux, "{}", json!({"kind": "tokelvin", "x": xv, "from": s1})).unwrap();
        let dimd = *rng.pick(&["meter", "3 kg", "K", "second"]);
        writeln!(req, "{}", req_line(&format!("{} {} {}", xt, dimd, a))).unwrap();
        writeln!(aux, "{}", json!({"kind": "refuse"})).unwrap();
        writeln!(req, "{}", req_line(&format!("{} K -> {} {}", xt, *rng.pick(&["2", "meter", "3"]), a))).unwrap();
        writeln!(aux, "{}", json!({"kind": "refuse"})).unwrap();
        writeln!(req, "{}", req_line(&format!("{} K -> 1 / {}", xt, a))).unwrap();
        writeln!(aux, "{}", json!({"kind": "refuse"})).unwrap();
        // a dimensioned operand is refused whatever the target, the same scale included
        writeln!(req, "{}", req_line(&format!("{} {} {} -> {}", xt, dimd, a, a))).unwrap();
        writeln!(aux, "{}", json!({"kind": "refuse"})).unwrap();
        writeln!(req, "{}", req_line(&format!("{} {} {} -> kelvin", xt, dimd, a))).unwrap();
        writeln!(aux, "{}", json!({"kind": "refuse"})).unwrap();
        total += 2;
        // the scale first, then the rest of a compound target
        let tails: Vec<String> = vec!["/s".into(), " m".into(), " / second".into(), " 2".into(), " garbage here".into(), format!(", {}", a), " + 1".into(), format!(" {}", a), " ^2".into(), "*3".into(), "|2".into(), " -> K".into(), " per s".into()];
        let tail = rng.pick(&tails).clone();
        writeln!(req, "{}", req_line(&format!("{} K -> {}{}", xt, a, tail))).unwrap();
        writeln!(aux, "{}", json!({"kind": "refuse"})).unwrap();
        total += 6;
    } } }
    // chains: convert through a random path of scales and back
    let nchain = if o.thorough { 4000 } else { 400 };
    for _ in 0..nchain {
        let (xt, xv) = temp_value(&mut rng);
        let mut text = format!("{} {}", xt, SCALES[rng.below(6) as usize].1[0]);
        let first = text.clone();
        let _ = first;
        let start = SCALES.iter().position(|s| text.ends_with(s.1[0])).unwrap();
        let mut cur = start;
        // `(x a -> b)` cannot be nested in one query; a chain is a sequence of queries using ans? keep single hop pairs + kelvin hop
        let hop = rng.below(6) as usize;
        text = format!("{} -> {}", text, SCALES[hop].1[rng.below(SCALES[hop].1.len() as u64) as usize]);
        cur = hop;
        let _ = cur;
        writeln!(req, "{}", req_line(&text)).unwrap();
        writeln!(aux, "{}", json!({"kind": "pair", "x": xv, "from": SCALES[start].0, "to": SCALES[hop].0})).unwrap();
        total += 1;
    }
    req.flush().unwrap(); aux.flush().unwrap();
    crate::util::write_json(&format!("{}/stats.json", o.out), &json!({"total": total, "samples": samples, "ordered_scale_pairs": 36}));
    0
}

// ------------------------------------------------------------------------------------ C06

fn req_line_p(text: &str) -> String { req_line(text).replacen("eval ", "evalp ", 1) }

pub fn run_c06(o: &Opts) -> i32 {
    let db = Db::new();
    let mut rng = Rng::new(o.seed);
    let mut req = o.writer("req.txt");
    let mut aux = o.writer("aux.txt");
    let mut total = 0u64;
    let mut samples = vec![];
    let mut emit = |text: &str, src: &str, total: &mut u64, samples: &mut Vec<String>| {
        if text.chars().count() > 450 { return; }
        let top = eval_number(&db.ctx, src);
        writeln!(req, "{}", req_line_p(text)).unwrap();
        writeln!(aux, "{}", match &top { Some(t) => json!({"top": rat(&t.value), "topdims": fmt_dim(&t.unit)}), None => json!({"top": null}) }).unwrap();
        *total += 1;
        if samples.len() < 12 && *total % 499 == 1 { samples.push(text.to_string()); }
    };
    // corpus
    for t in ["1000 m -> hex", "1000 m -> base 7", "5e9 kg", "1 bit", "8 bit", "1e6 gram", "0.5 mm^2", "1 gram^-2", "1 -> milliCalorie", "3 megagram", "1 kg m^2 / s^3 A^2"] {
        let src = t.split("->").next().unwrap().trim().to_string();
        emit(t, &src, &mut total, &mut samples);
    }
    // 1. every database unit (sampled in quick) x magnitudes at SI prefix boundaries x powers
    let mags: Vec<i32> = (-10..=10).map(|k| k * 3).collect();
    for name in &db.names {
        if !o.thorough && !rng.chance(1, 12) { continue; }
        let reps = if o.thorough { 4 } else { 2 };
        for _ in 0..reps {
            let e = *rng.pick(&mags);
            let m = *rng.pick(&["0.999", "1", "1000", "999.999", "1.0001", "-1", "2.5"]);
            let p = 1 + rng.below(3);
            let text = if p == 1 { format!("{}e{} {}", m, e, name) } else { format!("{}e{} {}^{}", m, e, name, p) };
            emit(&text, &text, &mut total, &mut samples);
        }
    }
    // 2. products / quotients of up to four base units with exponents -3..3 (derived-unit regrouping)
    let bases: Vec<String> = db.ctx.registry.base_units.iter().map(|b| b.to_string()).collect();
    let n2 = if o.thorough { 40_000 } else { 3_000 };
    for _ in 0..n2 {
        let k = 1 + rng.below(4);
        let mut parts = vec![];
        for _ in 0..k { let e = rng.range(-3, 3); if e != 0 { parts.push(format!("{}^{}", rng.pick(&bases), e)); } }
        if parts.is_empty() { continue; }
        let c = *rng.pick(&["1", "1000", "1e-6", "12.5", "1|3", "0.001", "7e9", "-4"]);
        let text = format!("{} {}", c, parts.join(" "));
        emit(&text, &text, &mut total, &mut samples);
    }
    // 3. conversions with constants / prefixes / compound targets, and digits / base modes
    let n3 = if o.thorough { 40_000 } else { 3_000 };
    let dims: Vec<&Vec<String>> = db.by_dim.values().filter(|v| v.len() >= 2).collect();
    for _ in 0..n3 {
        let g = *rng.pick(&dims);
        let (a, b) = (rng.pick(g).clone(), rng.pick(g).clone());
        let c = *rng.pick(&["1", "3", "2.5", "1|7", "1000", "1e-3", "12"]);
        let src = format!("{} {}", coef_pos(&mut rng), a);
        let x = db.rand_name(&mut rng);
        let c2 = *rng.pick(&["2", "3", "1|4", "10", "0.5"]);
        let text = match rng.below(31) {
            // sums and differences of conformable quantities written with different unit names
            29 => format!("{} -> {} {} + {} {}", src, c, a, c2, b),
            30 => format!("{} -> {} {} - {} {}", src, c2, b, *rng.pick(&["1", "1|3", "0.25"]), a),
            // sums, differences, remainders and bit operations of constants times one unit; fractional powers
            23 => format!("{} -> {} {} + {} {}", src, c, b, c2, b),
            24 => format!("{} -> {} {} - {} {}", src, c2, b, *rng.pick(&["1", "1|3", "0.25", "7"]), b),
            25 => format!("{} -> {} {} mod {} {}", src, *rng.pick(&["7", "10", "2.5", "100"]), b, *rng.pick(&["4", "3", "0.75", "32"]), b),
            26 => format!("{} -> {} {} {}", coef_pos(&mut rng), *rng.pick(&["6", "12", "255", "10"]), *rng.pick(&["and", "or", "xor"]), *rng.pick(&["3", "5", "12", "128"])),
            // (units of negative value - delisle_absolute, g0000000 ... - have their own fixed lines below: for them
            // the root of the square is a listed known finding)
            27 => if db.lookup(&b).map(|v| v.value < Numeric::from(0)).unwrap_or(true) { format!("{} -> {}", src, b) } else { format!("{} -> ({}^2)^0.5", src, b) },
            28 => format!("{} -> {} {}", src, *rng.pick(&["4^0.5", "4^(1|2)", "8^(1|3)", "2^1.0", "2^-1"]), b),
            // a term of a product that carries both a constant and a unit (group, power of a group, quotient)
            18 => format!("{} -> {} ({} {})", src, c, c2, b),
            19 => format!("{} {} -> ({} {})^2 / {}", src, a, c2, b, b),
            20 => format!("{} {} -> {} ({} {})", src, a, b, c2, a),
            21 => format!("{} / {} -> ({} / {}) ({} / {})^-1", src, x, b, c, x, c2),
            22 => format!("{} {} -> ({} {}) ({} {})", src, a, c, b, c2, a),
            // dimensionless results converted to a bare constant or a constant times a dimensionless unit
            15 => format!("{} -> {}", coef_pos(&mut rng), c),
            16 => format!("{} {} / {} -> {}", coef_pos(&mut rng), a, b, c),
            17 => format!("{} {} / {} -> {} {}", coef_pos(&mut rng), a, b, c, *rng.pick(&["dozen", "percent", "score", "gross"])),
            // the same unit on both sides of a division in the target; a constant under a (negative) power
            8 => format!("{} -> {} {} / {}", src, b, x, x),
            9 => format!("{} / {}^2 -> {} / {} / {}", src, x, b, x, x),
            10 => format!("{} -> {}^3 / {} / {}", src, b, b, b),
            11 => format!("({})^-1 -> ({} {})^-1", src, c, b),
            12 => { let k = rng.range(-3, 3); format!("({})^{} -> ({} {})^{}", src, k, c, b, k) }
            13 => format!("{} -> {} / ({} {})^-1 / {}", src, b, c, x, x),
            14 => format!("1 / ({}) -> 1 / ({} {})", src, c, b),
            0 => format!("{} -> {} {}", src, c, b),
            1 => format!("{} -> {}{}", src, rng.pick(&db.prefixes), b),
            2 => format!("{} -> {} / {}", src, b, c),
            3 => format!("{} -> digits {}", src, rng.below(30)),
            4 => format!("{} -> {}", src, *rng.pick(&["hex", "oct", "bin", "base 7", "base 36", "sci", "eng", "frac", "digits"])),
            5 => format!("{} {} -> {} {}", src, a, b, a),
            6 => format!("{} -> {} {}", src, *rng.pick(&["sci", "eng", "hex", "digits 12"]), b),
            _ => format!("{} -> {}", src, b),
        };
        let src_text = text.split("->").next().unwrap().trim().to_string();
        emit(&text, &src_text, &mut total, &mut samples);
    }
    // the even root of an even power of a unit of negative value (see known_findings.json)
    for text in ["174 stdtemp -> (delisle_absolute^2)^0.5"] {
        let src_text = text.split("->").next().unwrap().trim().to_string();
        emit(text, &src_text, &mut total, &mut samples);
    }
    drop(emit);
    req.flush().unwrap(); aux.flush().unwrap();
    crate::util::write_json(&format!("{}/stats.json", o.out), &json!({"total": total, "samples": samples, "unit_names": db.names.len()}));
    0
}

/// post-pass for the C06 oracle: resolves every unit name printed in impl.txt the way Rink
/// reads names (`Context::lookup`) and writes lookups.txt (one JSON object per line).
pub fn c06_lookups(o: &Opts) -> i32 {
    let db = Db::new();
    let imp = std::fs::read_to_string(format!("{}/impl.txt", o.out)).expect("impl.txt");
    let mut out = o.writer("lookups.txt");
    for line in imp.lines() {
        let mut m = serde_json::Map::new();
        if line.starts_with("parts ") {
            let field = |k: &str| line.split(' ').find_map(|f| f.strip_prefix(&format!("{}=", k)).map(|s| s.to_string()));
            let names = match field("rawunit") { Some(u) if u != "none" => u, _ => field("rawdims").unwrap_or_else(|| "-".into()) };
            if names != "-" && names != "none" {
                for part in names.split(',') {
                    if let Some((k, _)) = part.rsplit_once(':') {
                        let name = if let Some(h) = k.strip_prefix('x') { crate::evalsess::unhex(h) } else { k.to_string() };
                        let v = db.lookup(&name);
                        m.insert(k.to_string(), match v { Some(n) => json!({"v": rat(&n.value), "d": fmt_dim(&n.unit)}), None => serde_json::Value::Null });
                    }
                }
            }
        }
        writeln!(out, "{}", serde_json::Value::Object(m)).unwrap();
    }
    out.flush().unwrap();
    0
}

// ------------------------------------------------------------------------------------ C17

fn dims_expr(d: &Dimensionality) -> String {
    if d.is_dimensionless() { return "1".into(); }
    d.iter().map(|(k, p)| if *p == 1 { k.to_string() } else { format!("{}^{}", k, p) }).collect::<Vec<_>>().join(" ")
}

pub fn run_c17(o: &Opts) -> i32 {
    let db = Db::new();
    let reg = &db.ctx.registry;
    let mut rng = Rng::new(o.seed);
    let mut req = o.writer("req.txt");
    let mut aux = o.writer("aux.txt");
    let mut total = 0u64;
    let mut samples = vec![];
    // expected members of `units for X`, computed without the UnitsFor arm
    let expected = |x: &Dimensionality| -> Vec<(String, Option<String>)> {
        let mut v: Vec<(String, Option<String>)> = reg.units.iter()
            .filter(|(n, u)| u.unit == *x && !matches!(reg.definitions.get(*n), Some(rink_core::ast::Expr::Unit { .. })))
            .map(|(n, _)| (n.clone(), reg.categories.get(n).and_then(|c| reg.category_names.get(c)).cloned())).collect();
        if let Some((b, 1)) = x.as_single() {
            let n = db.ctx.canonicalize(b.as_str()).unwrap_or_else(|| b.to_string());
            let c = reg.categories.get(&n).and_then(|c| reg.category_names.get(c)).cloned();
            v.push((n, c));
        }
        v
    };
    let qdims: BTreeMap<String, Dimensionality> = reg.quantities.iter().map(|(d, n)| (n.clone(), d.clone())).collect();
    let score = |d: &Dimensionality| -> i64 { d.iter().map(|(_, p)| 1 + p.abs()).sum() };
    let mut emit = |text: String, kind: &str, x: &Dimensionality, pair: Option<u64>, total: &mut u64, samples: &mut Vec<String>| -> u64 {
        writeln!(req, "{}", req_line(&text)).unwrap();
        let exp: Vec<serde_json::Value> = if kind == "unitsfor" { expected(x).into_iter().map(|(n, c)| json!([n, c])).collect() } else { vec![] };
        let qd: serde_json::Map<String, serde_json::Value> = if kind == "factorize" { qdims.iter().map(|(n, d)| (n.clone(), json!(fmt_dim(d)))).collect() } else { serde_json::Map::new() };
        let _ = qd;
        writeln!(aux, "{}", json!({"kind": kind, "x": fmt_dim(x), "expected": exp, "pair": pair})).unwrap();
        *total += 1;
        if samples.len() < 10 && *total % 37 == 1 { samples.push(text); }
        *total - 1
    };
    // quantity dims table once, in stats (the oracle needs dims of every quantity name)
    let qtable: serde_json::Map<String, serde_json::Value> = qdims.iter().map(|(n, d)| (crate::evalsess::enc_name(n), json!(fmt_dim(d)))).collect();
    // corpus
    for t in ["units for m^2", "units for 1 / s", "factorize A s", "factorize kg / m s^2", "units for length", "factorize velocity"] {
        let kind = if t.starts_with("units") { "unitsfor" } else { "factorize" };
        let body = if kind == "unitsfor" { &t["units for ".len()..] } else { &t["factorize ".len()..] };
        let d = qdims.get(body).cloned().or_else(|| eval_number(&db.ctx, body).map(|n| n.unit));
        if let Some(d) = d { emit(t.to_string(), kind, &d, None, &mut total, &mut samples); }
    }
    // every named quantity: by name and by an expression of that dimensionality
    for (name, d) in &qdims {
        let i = emit(format!("units for {}", name), "unitsfor", d, None, &mut total, &mut samples);
        emit(format!("units for {}", dims_expr(d)), "unitsfor", d, Some(i), &mut total, &mut samples);
        // (the search is memoised since the fix: every named quantity can be asked, whatever its complexity)
        if score(d) <= 18 {
            let j = emit(format!("factorize {}", name), "factorize", d, None, &mut total, &mut samples);
            emit(format!("factorize {}", dims_expr(d)), "factorize", d, Some(j), &mut total, &mut samples);
        }
    }
    // every dimensionality occurring in the database
    let all_dims: Vec<Dimensionality> = { let mut s = std::collections::BTreeSet::new(); for u in reg.units.values() { s.insert(u.unit.clone()); } s.into_iter().collect() };
    for d in &all_dims {
        if !o.thorough && !rng.chance(1, 3) { continue; }
        emit(format!("units for {}", dims_expr(d)), "unitsfor", d, None, &mut total, &mut samples);
        if score(d) <= if o.thorough { 16 } else { 14 } { emit(format!("factorize {}", dims_expr(d)), "factorize", d, None, &mut total, &mut samples); }
    }
    // random products of base units with exponents -3..3
    let bases: Vec<String> = reg.base_units.iter().map(|b| b.to_string()).collect();
    let nr = if o.thorough { 600 } else { 80 };
    for _ in 0..nr {
        let k = 1 + rng.below(3);
        let mut m: BTreeMap<String, i64> = BTreeMap::new();
        for _ in 0..k { let e = rng.range(-3, 3); if e != 0 { m.insert(rng.pick(&bases).clone(), e); } }
        let d: Dimensionality = m.iter().map(|(k, p)| (rink_core::types::BaseUnit::new(k), *p)).collect();
        emit(format!("units for {}", dims_expr(&d)), "unitsfor", &d, None, &mut total, &mut samples);
        if score(&d) <= 12 { emit(format!("factorize {}", dims_expr(&d)), "factorize", &d, None, &mut total, &mut samples); }
    }
    drop(emit);
    req.flush().unwrap(); aux.flush().unwrap();
    crate::util::write_json(&format!("{}/stats.json", o.out), &json!({"total": total, "quantities": qdims.len(), "dimensionalities": all_dims.len(), "samples": samples, "quantity_dims": qtable}));
    // a second, small database in the same process and thread, after the bundled one has answered the same
    // questions: the answers are about the database asked (its quantity names, its categories)
    {
        use rink_core::output::QueryReply;
        let mut big = rink_core::simple_context().expect("bundled context");
        let mut small = rink_core::Context::new();
        let text = "m !meter\ns !second\n!category wsb \"Workshop\"\nbanana 2 m\n!endcategory\n!category wsa \"Workshop\"\napple 3 m\ncherry 5 m\n!endcategory\n!category orchard \"Orchard\"\nplum 7 m\n!endcategory\ndamson 11 m\nzerolength 0 m\nnospeed 0 m / s\n\
                    distance ? m\nduration ? s\npace ? duration / distance\nquickness ? distance / duration\nsurge ? quickness / duration\n";
        let load = small.load_definitions(text);
        let mut out = vec![];
        for q in ["factorize m / s", "factorize m / s^2", "units for m", "factorize s / m", "units for m / s"] {
            let first = match rink_core::eval(&mut big, q) { Ok(QueryReply::Factorize(f)) => f.factorizations.len() as i64, Ok(QueryReply::UnitsFor(u)) => u.units.len() as i64, _ => -1 };
            let rep = rink_core::eval(&mut small, q);
            let v = match rep {
                Ok(QueryReply::Factorize(f)) => json!({"q": q, "kind": "factorize", "bundled_first": first, "names": f.factorizations.iter().map(|x| x.units.keys().map(|k| k.to_string()).collect::<Vec<_>>()).collect::<Vec<_>>()}),
                Ok(QueryReply::UnitsFor(u)) => json!({"q": q, "kind": "unitsfor", "bundled_first": first, "groups": u.units.iter().map(|g| json!({"category": g.category, "units": g.units})).collect::<Vec<_>>()}),
                Ok(_) => json!({"q": q, "kind": "other"}),
                Err(e) => json!({"q": q, "kind": "error", "text": format!("{}", e)}),
            };
            out.push(v);
        }
        crate::util::write_json(&format!("{}/twodb.json", o.out), &json!({"load": format!("{:?}", load), "quantities": ["distance", "duration", "pace", "quickness", "surge"],
            "category_ids": {"Workshop": 2, "Orchard": 1}, "units": {"banana": "Workshop", "apple": "Workshop", "cherry": "Workshop", "plum": "Orchard", "damson": null, "zerolength": null, "meter": null}, "answers": out}));
    }
    0
}

// ------------------------------------------------------------------------------------ C03: what a conformance error says

/// post-pass for C03: for every conversion of req.txt whose two sides evaluate to numbers of different
/// dimensionality, the reply must be a conformance error that flags the reciprocal case exactly when the
/// product of the two units is dimensionless, and otherwise names a factor that really is the missing one
/// (`multiply|divide left|right side by D`, D read back through the quantity table).
pub fn c03_suggest(o: &Opts) -> i32 {
    use rink_core::output::QueryError;
    let db = Db::new();
    let reg = &db.ctx.registry;
    let mut ctx = crate::evalsess::new_context();
    ctx.save_previous_result = false;
    let text = std::fs::read_to_string(format!("{}/req.txt", o.out)).expect("req.txt");
    let mut out = o.writer("suggest_oracle.jsonl");
    let qdims: std::collections::BTreeMap<String, Dimensionality> = reg.quantities.iter().map(|(d, n)| (n.clone(), d.clone())).collect();
    let parse_desc = |d: &str| -> Option<Dimensionality> {
        let mut acc = Dimensionality::new();
        for tok in d.split_whitespace() {
            let (name, pow) = match tok.rsplit_once('^') { Some((n, p)) => (n, p.parse::<i64>().ok()?), None => (tok, 1) };
            let dims = if name.starts_with('\'') && name.ends_with('\'') && name.len() >= 2 { Dimensionality::base_unit(rink_core::types::BaseUnit::new(&name[1..name.len() - 1])) } else { qdims.get(name)?.clone() };
            acc = &acc * &dims.pow(pow);
        }
        Some(acc)
    };
    let (mut checked, mut unparsed, mut bad) = (0u64, 0u64, 0u64);
    std::panic::set_hook(Box::new(|_| {}));
    for line in text.lines() {
        let p: Vec<&str> = line.split(' ').collect();
        if p.len() < 2 || !(p[0] == "eval" || p[0] == "evalp") { continue; }
        let q = crate::evalsess::unhex(p[1]);
        let (l, r) = match q.split_once("->") { Some(x) => x, None => continue };
        let (top, bottom) = match (eval_number(&ctx, l.trim()), eval_number(&ctx, r.trim())) { (Some(a), Some(b)) => (a, b), _ => continue };
        if top.unit == bottom.unit { continue; }
        let res = std::panic::catch_unwind(std::panic::AssertUnwindSafe(|| crate::evalsess::eval_pinned(&mut ctx, &q).1));
        let err = match res { Ok(Err(QueryError::Conformance(e))) => e, Ok(Ok(_)) | Ok(Err(_)) | Err(_) => continue };  // the error class is judged elsewhere
        checked += 1;
        let product_dimless = (&top.unit * &bottom.unit).is_dimensionless();
        let flagged = err.suggestions.iter().any(|s| s.starts_with("Reciprocal conversion"));
        let mut why: Option<String> = None;
        if flagged != product_dimless {
            why = Some(if flagged { "flagged as a reciprocal conversion although the product of the two units is not dimensionless".into() } else { "the reciprocal case is not flagged".into() });
        } else if !product_dimless {
            for s in &err.suggestions {
                let w: Vec<&str> = s.splitn(5, ' ').collect();   // multiply|divide left|right side by D
                if w.len() < 5 || w[2] != "side" || w[3] != "by" { unparsed += 1; continue; }
                let d = match parse_desc(w[4]) { Some(d) => d, None => { unparsed += 1; continue; } };
                let ok = match (w[0], w[1]) {
                    ("multiply", "left") => &top.unit * &d == bottom.unit,
                    ("divide", "left") => &top.unit / &d == bottom.unit,
                    ("multiply", "right") => top.unit == &bottom.unit * &d,
                    ("divide", "right") => top.unit == &bottom.unit / &d,
                    _ => { unparsed += 1; continue; }
                };
                if !ok { why = Some(format!("suggestion {:?} does not make the two sides conformable", s)); }
            }
            if err.suggestions.is_empty() { why = Some("no suggestion names the missing factor".into()); }
        }
        if let Some(w) = why {
            bad += 1;
            if bad <= 50 { writeln!(out, "{}", json!({"query": q, "why": w, "suggestions": err.suggestions, "left": fmt_dim(&top.unit), "right": fmt_dim(&bottom.unit)})).unwrap(); }
        }
    }
    out.flush().unwrap();
    crate::util::write_json(&format!("{}/suggest_stats.json", o.out), &json!({"conformance_errors_checked": checked, "suggestions_not_parsed": unparsed, "violations": bad}));
    0
}
