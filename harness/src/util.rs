#![allow(dead_code)]
use std::fs::File;
use std::io::{BufWriter, Write};

pub struct Opts {
    pub out: String,
    pub seed: u64,
    pub thorough: bool,
    pub input: Option<String>,
    pub extra: Vec<String>,
}

impl Opts {
    pub fn parse(args: &[String]) -> Opts {
        let mut o = Opts { out: ".".into(), seed: 1, thorough: false, input: None, extra: vec![] };
        let mut i = 0;
        while i < args.len() {
            match args[i].as_str() {
                "--out" => { o.out = args[i + 1].clone(); i += 1; }
                "--seed" => { o.seed = args[i + 1].parse().unwrap_or(1); i += 1; }
                "--tier" => { o.thorough = args[i + 1] == "thorough"; i += 1; }
                "--input" => { o.input = Some(args[i + 1].clone()); i += 1; }
                x => o.extra.push(x.to_string()),
            }
            i += 1;
        }
        o
    }
    pub fn writer(&self, name: &str) -> BufWriter<File> {
        std::fs::create_dir_all(&self.out).ok();
        BufWriter::with_capacity(1 << 20, File::create(format!("{}/{}", self.out, name)).expect("create output"))
    }
}

/// xorshift64*: every random choice in a run derives from one state.
pub struct Rng(pub u64);
impl Rng {
    pub fn new(seed: u64) -> Rng {
        Rng(seed.wrapping_mul(0x9E3779B97F4A7C15) ^ 0xD1B54A32D192ED03 | 1)
    }
    pub fn next(&mut self) -> u64 {
        let mut x = self.0;
        x ^= x >> 12;
        x ^= x << 25;
        x ^= x >> 27;
        self.0 = x;
        x.wrapping_mul(0x2545F4914F6CDD1D)
    }
    pub fn below(&mut self, n: u64) -> u64 { if n == 0 { 0 } else { self.next() % n } }
    pub fn range(&mut self, lo: i64, hi: i64) -> i64 { lo + self.below((hi - lo + 1) as u64) as i64 }
    pub fn chance(&mut self, num: u64, den: u64) -> bool { self.below(den) < num }
    pub fn pick<'a, T>(&mut self, xs: &'a [T]) -> &'a T { &xs[self.below(xs.len() as u64) as usize] }
}

pub fn hex(s: &str) -> String {
    let mut o = String::with_capacity(s.len() * 2);
    for b in s.as_bytes() { o.push_str(&format!("{:02x}", b)); }
    if o.is_empty() { o.push('-'); }
    o
}

pub fn json_str(s: &str) -> String { serde_json::to_string(s).unwrap() }

pub fn write_json(path: &str, v: &serde_json::Value) {
    let mut f = File::create(path).expect("create json");
    f.write_all(serde_json::to_string_pretty(v).unwrap().as_bytes()).unwrap();
}
