//! C07 stream: every prefix+unit[+s] name over the loaded database, resolved by the real
//! `Context::lookup` / `Context::canonicalize` (API level) and judged by the three ordering laws.
//!
//! req.txt lines: `name <hex>`; impl.txt: `<value> <dims>|none ; <canon-hex>|none ; <value-of-canon>|none`
use crate::evalsess::{fmt_number, new_context};
use crate::util::{hex, Opts, Rng};
use rink_core::types::Number;
use serde_json::json;
use std::io::Write;

fn fmt_opt(n: &Option<Number>) -> String { match n { Some(n) => fmt_number(n), None => "none".into() } }

pub fn run(o: &Opts) -> i32 {
    let ctx = new_context();
    let r = &ctx.registry;
    let mut req = o.writer("req.txt");
    let mut imp = o.writer("impl.txt");
    let mut orc = o.writer("oracle.jsonl");
    let mut rng = Rng::new(o.seed);
    let bases: Vec<String> = r.units.keys().cloned().chain(r.base_units.iter().map(|b| b.to_string())).collect();
    let prefixes: Vec<(String, Number)> = r.prefixes.iter().map(|(p, v)| (p.clone(), Number::new(v.clone()))).collect();
    let exact = |n: &str| -> Option<Number> {
        if let Some(b) = r.base_units.get(n) { return Some(Number::one_unit(b.clone())); }
        r.units.get(n).cloned()
    };
    // the reading the property prescribes, computed without rink's lookup code
    let spec_with_prefix = |n: &str| -> Option<Number> {
        if let Some(v) = exact(n) { return Some(v); }
        for (p, pv) in &prefixes {
            if let Some(rest) = n.strip_prefix(p.as_str()) {
                if let Some(v) = exact(rest) { return (&v * pv).map(|x| x); }
            }
        }
        None
    };
    let spec = |n: &str| -> Option<Number> {
        spec_with_prefix(n).or_else(|| n.strip_suffix('s').and_then(|m| spec_with_prefix(m)))
    };
    let sample = !o.thorough;
    let (mut total, mut resolved, mut nviol, mut canon_some, mut canon_unresolvable, mut canon_changed) = (0u64, 0u64, 0u64, 0u64, 0u64, 0u64);
    let mut samples = vec![];
    let mut emit = |name: &str, rng: &mut Rng| {
        let _ = rng;
        total += 1;
        let v = ctx.lookup(name);
        let c = ctx.canonicalize(name);
        let vc = c.as_ref().and_then(|c| ctx.lookup(c));
        if v.is_some() { resolved += 1; }
        writeln!(req, "name {}", hex(name)).unwrap();
        writeln!(imp, "{} ; {} ; {}", fmt_opt(&v), c.as_ref().map(|c| hex(c)).unwrap_or_else(|| "none".into()), fmt_opt(&vc)).unwrap();
        let want = spec(name);
        if want != v {
            nviol += 1;
            if nviol <= 200 { writeln!(orc, "{}", json!({"law": "resolution-order", "name": name, "impl": fmt_opt(&v), "spec": fmt_opt(&want)})).unwrap(); }
        }
        if let (Some(v), Some(c)) = (&v, &c) {
            canon_some += 1;
            match &vc {
                None => { canon_unresolvable += 1; writeln!(orc, "{}", json!({"law": "canonical-unresolvable", "name": name, "canon": c, "value": fmt_number(v)})).unwrap(); }
                Some(w) if w != v => { canon_changed += 1; writeln!(orc, "{}", json!({"law": "canonical-changes-value", "name": name, "canon": c, "value": fmt_number(v), "canon_value": fmt_number(w)})).unwrap(); }
                _ => {}
            }
        }
        // determinism: same answer the second time
        if ctx.lookup(name) != v { nviol += 1; writeln!(orc, "{}", json!({"law": "determinism", "name": name})).unwrap(); }
        if samples.len() < 10 && total % 9973 == 1 { samples.push(name.to_string()); }
    };
    // names next to the reserved ones (`ans`, `ANS`, `_` denote the previous answer; nothing else does)
    for n in ["aNs", "Ans", "ANs", "anS", "AnS", "aNS", "anss", "answer", "__", "_s", "a_", "_m"] { emit(n, &mut rng); }
    for b in &bases {
        emit(b, &mut rng);
        emit(&format!("{}s", b), &mut rng);
        for (p, _) in &prefixes {
            if sample && !rng.chance(1, 10) { continue; }
            emit(&format!("{}{}", p, b), &mut rng);
            emit(&format!("{}{}s", p, b), &mut rng);
        }
    }
    // names that are not units at all, near misses
    for n in ["", "s", "ss", "kilo", "millis", "kilokilometer", "meterss", "xyzzy", "mass", "millimass", "length", "kilolength"] { emit(n, &mut rng); }
    drop(emit);
    // lookup is a function of the database it is asked on: two small databases that give the same names
    // different values, asked alternately on one thread (and again after the big database above was used)
    let mut dbs_checked = 0u64;
    {
        let mk = |k: &str, boxv: &str, extra: &str| -> rink_core::Context {
            let mut c = rink_core::Context::new();
            let text = format!("apple !\nk- {}\nkilo- k\nd- 1|10\nda- 10\nbox {} apple\nam 3 apple\nm 5 apple\n{}\n", k, boxv, extra);
            let _ = c.load_definitions(&text);
            c
        };
        let a = mk("1000", "6", "crate 2 box");
        let b = mk("1024", "8", "crate 3 box\nkbox 7 apple");
        let show = |v: Option<Number>| v.map(|n| fmt_number(&n)).unwrap_or_else(|| "none".into());
        let names = ["kbox", "kiloboxs", "dam", "kcrate", "kcrates", "box", "kam", "kbox"];
        let wa = ["6000/1 apple:1", "6000/1 apple:1", "3/10 apple:1", "12000/1 apple:1", "12000/1 apple:1", "6/1 apple:1", "3000/1 apple:1", "6000/1 apple:1"];
        let wb = ["7/1 apple:1", "8192/1 apple:1", "3/10 apple:1", "24576/1 apple:1", "24576/1 apple:1", "8/1 apple:1", "3072/1 apple:1", "7/1 apple:1"];
        for round in 0..3 {
            for (i, n) in names.iter().enumerate() {
                for (tag, c, want) in [("A", &a, wa[i]), ("B", &b, wb[i])] {
                    dbs_checked += 1;
                    let got = show(c.lookup(n));
                    if got != want {
                        nviol += 1;
                        writeln!(orc, "{}", json!({"law": "lookup-depends-on-another-database", "name": n, "database": tag, "round": round, "impl": got, "spec": want})).unwrap();
                    }
                }
            }
            // a base unit whose name is also that of a long prefix (which is stored among the units too): the exact
            // reading of a base unit's name is the base unit
            {
                let mut c = rink_core::Context::new();
                let _ = c.load_definitions("m !meter\ndozen !\ndozen- 12\nk-- 1000\nbox 3 dozen\n");
                for (n, want) in [("dozen", "1/1 dozen:1"), ("kdozen", "1000/1 dozen:1"), ("box", "3/1 dozen:1"), ("dozenm", "12/1 m:1"), ("dozens", "1/1 dozen:1")] {
                    dbs_checked += 1;
                    let got = show(c.lookup(n));
                    if got != want { nviol += 1; writeln!(orc, "{}", json!({"law": "resolution-order", "name": n, "database": "base unit named like a long prefix", "impl": got, "spec": want})).unwrap(); }
                    if let Some(cn) = c.canonicalize(n) { if c.lookup(&cn) != c.lookup(n) { nviol += 1; writeln!(orc, "{}", json!({"law": "canonical-changes-value", "name": n, "canon": cn, "value": got, "canon_value": show(c.lookup(&cn))})).unwrap(); } }
                }
            }
            // interleave with the bundled database
            let _ = ctx.lookup("kilometer"); let _ = ctx.lookup("dam");
        }
    }
    req.flush().unwrap(); imp.flush().unwrap(); orc.flush().unwrap();
    crate::util::write_json(&format!("{}/stats.json", o.out), &json!({"names": total, "resolved": resolved, "order_violations": nviol,
        "canonicalized": canon_some, "canonical_unresolvable": canon_unresolvable, "canonical_changes_value": canon_changed,
        "two_database_lookups": dbs_checked, "bases": bases.len(), "prefixes": prefixes.len(), "exhaustive": !sample, "samples": samples}));
    0
}

/// replay of one name: prints lookup, canonical name and its value; `VIOLATES` if a law fails
pub fn one(o: &Opts) -> i32 {
    let ctx = new_context();
    let name = o.input.clone().unwrap_or_default();
    let v = ctx.lookup(&name);
    let c = ctx.canonicalize(&name);
    let vc = c.as_ref().and_then(|c| ctx.lookup(c));
    println!("lookup({:?}) = {}", name, fmt_opt(&v));
    println!("canonicalize = {:?}; lookup(canonical) = {}", c, fmt_opt(&vc));
    if v.is_some() && c.is_some() && vc != v { println!("VIOLATES: canonicalisation changes what the name denotes"); return 1; }
    0
}
