//! C05 stream (API level): `Numeric::to_string` / `string_repr` / the `n` pattern on generated
//! rationals in every base and digits mode.
//!   req.txt   `dg <num> <den> <base> <mode> <n>`
//!   impl.txt  `<1|0> <text> | <exact or -> | <approx or -> | <n pattern>`
use crate::util::{Opts, Rng};
use num_bigint::BigInt;
use num_traits::{One, Pow, Signed, Zero};
use rink_core::output::{Digits, NumberParts};
use rink_core::types::{BigInt as RInt, BigRat, Numeric};
use std::io::Write;

fn to_numeric(n: &BigInt, d: &BigInt) -> Numeric {
    let rn = RInt::from_str_radix(&n.to_string(), 10).unwrap();
    let rd = RInt::from_str_radix(&d.to_string(), 10).unwrap();
    Numeric::Rational(BigRat::ratio(&rn, &rd))
}

fn big(rng: &mut Rng, bits: u64) -> BigInt {
    let mut v = BigInt::zero();
    let mut left = bits;
    while left > 0 { let k = left.min(60); v = (v << k) + BigInt::from(rng.next() & ((1u64 << k) - 1)); left -= k; }
    v + BigInt::one()
}

pub fn run(o: &Opts) -> i32 {
    let mut req = o.writer("req.txt");
    let mut imp = o.writer("impl.txt");
    let mut rng = Rng::new(o.seed);
    let mut total = 0u64;
    let mut by_mode = std::collections::BTreeMap::<String, u64>::new();
    let mut samples = vec![];
    std::panic::set_hook(Box::new(|_| {}));
    let mut emit = |n: BigInt, d: BigInt, base: u8, mode: &str, k: u64, rng: &mut Rng| {
        let _ = rng;
        if d.is_zero() { return; }
        let digits = match mode { "default" => Digits::Default, "fullint" => Digits::FullInt, "digits" => Digits::Digits(k), "fraction" => Digits::Fraction, "sci" => Digits::Scientific, _ => Digits::Engineering };
        let v = to_numeric(&n, &d);
        let line = format!("dg {} {} {} {} {}", n, d, base, mode, k);
        let ans = std::panic::catch_unwind(std::panic::AssertUnwindSafe(|| {
            let (ex, text) = v.to_string(base, digits);
            let (e, a) = v.string_repr(base, digits);
            let parts = NumberParts { exact_value: e.clone(), approx_value: a.clone(), ..Default::default() };
            format!("{} {} | {} | {} | {}", ex as u8, text, e.unwrap_or_else(|| "-".into()), a.unwrap_or_else(|| "-".into()), parts.format("n"))
        })).unwrap_or_else(|_| "panic".to_string());
        writeln!(req, "{}", line).unwrap();
        writeln!(imp, "{}", ans).unwrap();
        total += 1;
        *by_mode.entry(mode.to_string()).or_insert(0) += 1;
        if samples.len() < 10 && total % 911 == 1 { samples.push(line); }
    };
    let modes = ["default", "fullint", "digits", "fraction", "sci", "eng"];
    let scale = if o.thorough { 12 } else { 1 };
    // 1. boundary families  (b^k ± 1) / (b^j ± 1) in every base, every mode
    for base in 2u8..=36 {
        let b = BigInt::from(base);
        for _ in 0..(6 * scale) {
            let k = rng.below(14) as u32; let j = rng.below(9) as u32;
            let n = Pow::pow(&b, k) + BigInt::from(rng.range(-1, 1));
            let d = Pow::pow(&b, j) + BigInt::from(rng.range(-1, 1));
            let n = if rng.chance(1, 3) { -n } else { n };
            let mode = *rng.pick(&modes);
            let lim = if rng.chance(1, 8) { 400 } else { 30 }; let kk = rng.below(lim);
            emit(n, d.abs().max(BigInt::one()), base, mode, kk, &mut rng);
        }
    }
    // 1b. a single digit times a power of the base (every digit value, incl. decimal ten in bases above ten),
    //     in the scientific / engineering modes and large enough to be printed that way in the default mode
    for base in 2u8..=36 {
        let b = BigInt::from(base);
        for _ in 0..(4 * scale) {
            let dig = 1 + rng.below(base as u64 - 1);
            let k = rng.below(40) as u32;
            let n = BigInt::from(dig) * Pow::pow(&b, k);
            let (n, d) = if rng.chance(1, 3) { (BigInt::from(dig), Pow::pow(&b, k)) } else { (n, BigInt::one()) };
            let n = if rng.chance(1, 4) { -n } else { n };
            emit(n, d, base, *rng.pick(&["sci", "eng", "default", "digits"]), rng.below(12), &mut rng);
        }
        // decimal ten and the base's own neighbours as mantissa
        for dig in [10u64, base as u64 - 1, base as u64 + 1] {
            if dig >= base as u64 && dig != base as u64 + 1 { continue; }
            let k = 3 + rng.below(30) as u32;
            emit(BigInt::from(dig) * Pow::pow(&b, k), BigInt::one(), base, *rng.pick(&["sci", "eng"]), 0, &mut rng);
        }
    }
    // 1c. a non-recurring prefix of L digits followed by a short period, L around every digit budget
    //     (6 and 7 significant digits in the default / scientific modes, k in `digits k`)
    for _ in 0..(300 * scale) {
        let base = if rng.chance(1, 2) { 10 } else { 2 + rng.below(35) as u8 };
        let b = BigInt::from(base);
        let l = 3 + rng.below(9) as u32;
        let m = 1 + rng.below(3) as u32;
        let pfx = BigInt::from(rng.next() >> 8) % Pow::pow(&b, l);
        let bm1 = Pow::pow(&b, m) - BigInt::one();
        let r = BigInt::from(1 + rng.below(1000)) % &bm1;
        // (pfx + r / (b^m - 1)) / b^(l - s), with s digits of the prefix before the radix point
        let s_int = rng.below(3) as u32;
        let n = &pfx * &bm1 + &r;
        let d = &bm1 * Pow::pow(&b, l.saturating_sub(s_int));
        let mode = *rng.pick(&["default", "default", "sci", "eng", "digits", "digits"]);
        let k = if rng.chance(1, 2) { (l as u64).saturating_sub(s_int as u64) } else { rng.below(12) };
        emit(if rng.chance(1, 5) { -n } else { n }, d, base, mode, k, &mut rng);
    }
    // 2. denominators with short / long / huge recurring periods
    let dens: [u64; 14] = [3, 7, 9, 11, 13, 27, 37, 41, 97, 101, 239, 3937, 99991, 2305843009213693951];
    for _ in 0..(400 * scale) {
        let d = BigInt::from(*rng.pick(&dens)) * Pow::pow(&BigInt::from(*rng.pick(&[1u32, 2, 5, 10, 16])), rng.below(4) as u32);
        let n = BigInt::from(1 + rng.below(100000)) * if rng.chance(1, 4) { -1 } else { 1 };
        let base = if rng.chance(1, 2) { 10 } else { 2 + rng.below(35) as u8 };
        emit(n, d, base, *rng.pick(&modes), rng.below(40), &mut rng);
    }
    // 3. magnitudes across the 1e-9 / 1e9 notation switches
    for e in [-12i32, -10, -9, -8, -3, 0, 3, 8, 9, 10, 12, 15, 30] {
        for m in [1i64, 9, 10, 11, 99, 100, 101, 999_999_999, 1_000_000_000, 1_000_000_001, 123456789] {
            for base in [10u8, 2, 8, 16, 32, 36, 3] {
                let p = Pow::pow(&BigInt::from(10), e.unsigned_abs());
                let (n, d) = if e >= 0 { (BigInt::from(m) * &p, BigInt::one()) } else { (BigInt::from(m), p) };
                let mode = *rng.pick(&modes);
                emit(if rng.chance(1, 4) { -n } else { n }, d, base, mode, rng.below(12), &mut rng);
            }
        }
    }
    // 4. random rationals, up to thousands of bits
    for _ in 0..(600 * scale) {
        let nb = *rng.pick(&[8u64, 40, 64, 70, 200, 1000, 4096]);
        let db = *rng.pick(&[1u64, 8, 40, 64, 70, 200, 1000]);
        let b1 = 1 + rng.below(nb); let n = big(&mut rng, b1) * if rng.chance(1, 3) { -1 } else { 1 };
        let b2 = 1 + rng.below(db); let d = if rng.chance(1, 5) { BigInt::one() } else { big(&mut rng, b2) };
        let base = if rng.chance(1, 2) { 10 } else { 2 + rng.below(35) as u8 };
        let mode = *rng.pick(&modes);
        let kk = if mode == "digits" && rng.chance(1, 10) { rng.below(1001) } else { rng.below(25) };
        emit(n, d, base, mode, kk, &mut rng);
    }
    // 5. small exhaustive grid: p/q for 0 <= |p| <= 24, 1 <= q <= 24, a few bases, default mode
    for base in [10u8, 2, 16, 7] { for p in -24i64..=24 { for q in 1i64..=24 {
        if !o.thorough && (p + q) % 3 != 0 { continue; }
        emit(BigInt::from(p), BigInt::from(q), base, "default", 0, &mut rng);
    } } }
    drop(emit);
    req.flush().unwrap(); imp.flush().unwrap();
    crate::util::write_json(&format!("{}/stats.json", o.out), &serde_json::json!({"total": total, "by_mode": by_mode, "samples": samples, "bases": "2..36"}));
    0
}

/// replay of one request line
pub fn one(o: &Opts) -> i32 {
    let line = o.input.clone().unwrap_or_default();
    let f: Vec<&str> = line.split(' ').collect();
    if f.len() != 6 { println!("bad-op"); return 2; }
    let n: BigInt = f[1].parse().unwrap(); let d: BigInt = f[2].parse().unwrap();
    let base: u8 = f[3].parse().unwrap(); let k: u64 = f[5].parse().unwrap();
    let digits = match f[4] { "default" => Digits::Default, "fullint" => Digits::FullInt, "digits" => Digits::Digits(k), "fraction" => Digits::Fraction, "sci" => Digits::Scientific, _ => Digits::Engineering };
    let v = to_numeric(&n, &d);
    let (ex, text) = v.to_string(base, digits);
    let (e, a) = v.string_repr(base, digits);
    let parts = NumberParts { exact_value: e.clone(), approx_value: a.clone(), ..Default::default() };
    println!("{} {} | {} | {} | {}", ex as u8, text, e.unwrap_or_else(|| "-".into()), a.unwrap_or_else(|| "-".into()), parts.format("n"));
    0
}
