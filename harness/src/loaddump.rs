//! Loader streams (C08 / C12 / C13): parsed definitions and whole-registry dumps.
use crate::c11_expr::fmt_e;
use crate::util::{hex, Opts};
use rink_core::ast::{Def, DefEntry, Defs};
use std::io::Write;

fn opt_hex(o: &Option<String>) -> String { match o { Some(s) => hex(s), None => "-".into() } }

pub fn fmt_def(d: &DefEntry) -> String {
    let head = format!("{} doc={} cat={} ", hex(&d.name), opt_hex(&d.doc), opt_hex(&d.category));
    match &*d.def {
        Def::BaseUnit { long_name } => format!("{}base {}", head, opt_hex(long_name)),
        Def::Prefix { expr, is_long } => format!("{}prefix {} {}", head, *is_long as u8, fmt_e(&expr.0)),
        Def::Unit { expr } => format!("{}unit {}", head, fmt_e(&expr.0)),
        Def::Quantity { expr } => format!("{}quantity {}", head, fmt_e(&expr.0)),
        Def::Substance { symbol, properties } => format!("{}substance {} {}", head, opt_hex(symbol), properties.iter().map(|p|
            format!("{} {} {} doc={} IN {} OUT {}", hex(&p.name), hex(&p.input_name), hex(&p.output_name), opt_hex(&p.doc), fmt_e(&p.input.0), fmt_e(&p.output.0))).collect::<Vec<_>>().join(" ; ")),
        Def::Category { display_name } => format!("{}category {}", head, hex(display_name)),
        Def::Error { message } => format!("{}error {}", head, hex(message)),
    }
}

/// `rkh defs --input FILE --out DIR` → DIR/defs.impl.txt
pub fn defs(o: &Opts) -> i32 {
    let text = std::fs::read_to_string(o.input.as_ref().expect("--input")).expect("read");
    let d: Defs = rink_core::loader::gnu_units::parse_str(&text);
    let mut w = o.writer("defs.impl.txt");
    for e in &d.defs { writeln!(w, "{}", fmt_def(e)).unwrap(); }
    w.flush().unwrap();
    0
}

// ---------------------------------------------------------------------------------------------
// whole-registry dumps after loading arbitrary definition text

use crate::evalsess::{fmt_numeric};
use rink_core::types::Dimensionality;
use rink_core::Context;

fn dim_hex(d: &Dimensionality) -> String {
    if d.is_dimensionless() { return "-".into(); }
    d.iter().map(|(k, p)| format!("{}:{}", hex(k.as_str()), p)).collect::<Vec<_>>().join(",")
}

/// error messages of `Context::load` mapped to the tags the model emits
pub fn error_tag(msg: &str) -> String {
    let m = msg.trim();
    if m == "json" { return "json".to_string(); }
    let after = |p: &str| m.strip_prefix(p).map(|s| s.to_string());
    if let Some(r) = after("warning: multiple ") {
        let (ns, name) = r.split_once(" named ").unwrap_or((&r, ""));
        let ns = match ns { "prefixes" => "prefix", "quantities" => "quantity", "units" => "unit", _ => "category" };
        return format!("multiple:{}:{}", ns, name);
    }
    if let Some(r) = after("Unit ") {
        if let Some(id) = r.strip_suffix(" has a dependency cycle") { return format!("cycle:{}", id_tag(id)); }
    }
    if m.ends_with(" is not a number") { return format!("malformed:{}", id_tag(m.trim_end_matches(" is not a number"))); }
    if let Some((id, _)) = m.split_once(" is malformed: ") {
        if let Some(n) = id.strip_prefix("Substance ") { return format!("substance-malformed:{}", n); }
        return format!("malformed:{}", id_tag(id));
    }
    if let Some(r) = after("Prefix ") { return format!("prefix:{}", r.split(':').next().unwrap_or("")); }
    if let Some(r) = after("Warning: Conflicting quantities ") { let (a, b) = r.split_once(" and ").unwrap_or((&r, "")); return format!("quantity-conflict:{}:{}", a, b); }
    if let Some(r) = after("Quantity ") { return format!("quantity:{}", r.split(':').next().unwrap_or("")); }
    if let Some(r) = after("Warning: Conflicting substances for ") { return format!("substance-conflict:{}", id_tag(&r)); }
    if let Some(r) = after("Warning: conflicting properties for ") { let (c, n) = r.split_once(" of ").unwrap_or((&r, "")); return format!("property-conflict:{}:{}", n, c); }
    if let Some(r) = after("Def ") { return format!("def-error:{}", r.split(':').next().unwrap_or("")); }
    if let Some(r) = after("Doc conflict for ") { return format!("doc-conflict:{}", id_tag(&r)); }
    if let Some(r) = after("Category conflict: ") { return format!("category-conflict:{}", id_tag(r.split(" is in both").next().unwrap_or(""))); }
    format!("other:{}", m)
}

fn id_tag(id: &str) -> String {
    if let Some(n) = id.strip_prefix("unit ") { return format!("unit:{}", n); }
    if let Some(n) = id.strip_prefix("prefix ") { return format!("prefix:{}", n.trim_end_matches('-')); }
    if let Some(n) = id.strip_prefix("quantity ") { return format!("quantity:{}", n); }
    if let Some(n) = id.strip_prefix("category ") { return format!("category:{}", n); }
    id.to_string()
}

pub fn dump_registry(ctx: &Context, errors: &[String], w: &mut impl Write) {
    let r = &ctx.registry;
    for b in &r.base_units { writeln!(w, "base {}", hex(b.as_str())).unwrap(); }
    for (n, v) in &r.units { writeln!(w, "unit {} {} {}", hex(n), fmt_numeric(&v.value), dim_hex(&v.unit)).unwrap(); }
    for (n, v) in &r.prefixes { writeln!(w, "prefix {} {}", hex(n), fmt_numeric(v)).unwrap(); }
    for (n, e) in &r.definitions { writeln!(w, "defexpr {} {}", hex(n), fmt_e(e)).unwrap(); }
    for (s, l) in &r.base_unit_long_names { writeln!(w, "long {} {}", hex(s), hex(l)).unwrap(); }
    for (d, n) in &r.quantities { writeln!(w, "quantity {} {}", dim_hex(d), hex(n)).unwrap(); }
    for (d, n) in &r.decomposition_units { writeln!(w, "decomp {} {}", dim_hex(d), hex(n)).unwrap(); }
    for (n, s) in &r.substances {
        writeln!(w, "subst {} {} {} {}", hex(n), hex(&s.properties.name), fmt_numeric(&s.amount.value), dim_hex(&s.amount.unit)).unwrap();
        for (pn, p) in &s.properties.properties {
            writeln!(w, "prop {} {} {} {} {} {} {} {}", hex(n), hex(pn), fmt_numeric(&p.input.value), dim_hex(&p.input.unit), hex(&p.input_name),
                fmt_numeric(&p.output.value), dim_hex(&p.output.unit), hex(&p.output_name)).unwrap();
        }
    }
    for (sym, n) in &r.substance_symbols { writeln!(w, "symbol {} {}", hex(sym), hex(n)).unwrap(); }
    for (n, c) in &r.categories { writeln!(w, "category {} {}", hex(n), hex(c)).unwrap(); }
    for (c, n) in &r.category_names { writeln!(w, "catname {} {}", hex(c), hex(n)).unwrap(); }
    for (n, d) in &r.docs { writeln!(w, "doc {} {}", hex(n), hex(&d.to_string())).unwrap(); }
    let mut tags: Vec<String> = errors.iter().map(|e| error_tag(e)).collect();
    tags.sort();
    for t in tags { writeln!(w, "error {}", hex(&t)).unwrap(); }
}

/// loads the given files in order into a fresh context; `Err` text lines become error tags
pub fn load_files(units: &[String], currency: Option<(String, String)>) -> (Context, Vec<String>) {
    let mut ctx = Context::new();
    let mut errors = vec![];
    for f in units {
        let text = std::fs::read_to_string(f).expect("read units file");
        if let Err(e) = ctx.load_definitions(&text) { errors.extend(e.lines().skip(1).map(|l| l.trim().to_string())); }
    }
    if let Some((json, cu)) = currency {
        let j = std::fs::read_to_string(&json).expect("read json");
        let c = std::fs::read_to_string(&cu).expect("read currency units");
        if let Err(e) = ctx.load_currency(&j, &c) {
            if e.starts_with("Multiple errors") { errors.extend(e.lines().skip(1).map(|l| l.trim().to_string())); } else { errors.push(format!("json:{}", e)); }
        }
    }
    (ctx, errors)
}

/// `rkh loaddump --out DIR file.units ... [--currency=JSON,UNITS]` → DIR/registry.impl.dump
pub fn loaddump(o: &Opts) -> i32 {
    let files: Vec<String> = o.extra.iter().filter(|x| !x.starts_with("--")).cloned().collect();
    let cur = o.extra.iter().find_map(|x| x.strip_prefix("--currency=")).map(|s| { let (a, b) = s.split_once(',').unwrap(); (a.to_string(), b.to_string()) });
    let res = std::panic::catch_unwind(|| load_files(&files, cur));
    let mut w = o.writer("registry.impl.dump");
    match res {
        Ok((ctx, errors)) => dump_registry(&ctx, &errors, &mut w),
        Err(_) => writeln!(w, "panic").unwrap(),
    }
    w.flush().unwrap();
    0
}

/// converts currency JSON (a list of DefEntry) into the line form the Lean driver reads:
/// expression *texts* are passed on, so the model parses them itself
pub fn jsondefs(o: &Opts) -> i32 {
    let text = std::fs::read_to_string(o.input.as_ref().expect("--input")).expect("read");
    print!("{}", jsondefs_text(&text));
    0
}

pub fn jsondefs_text(text: &str) -> String {
    use std::fmt::Write as _;
    let mut out = String::new();
    let v: serde_json::Value = match serde_json::from_str(text) { Ok(v) => v, Err(_) => return "jsonerror\n".into() };
    let arr = match v.as_array() { Some(a) => a, None => return "jsonerror\n".into() };
    let s = |x: &serde_json::Value| x.as_str().map(|t| hex(t)).unwrap_or_else(|| "-".into());
    for e in arr {
        let head = format!("jdef {} doc={} cat={}", s(&e["name"]), s(&e["doc"]), s(&e["category"]));
        let _ = match e["type"].as_str().unwrap_or("") {
            "baseUnit" => writeln!(out, "{} base {}", head, s(&e["longName"])),
            "prefix" => writeln!(out, "{} prefix {} {}", head, e["isLong"].as_bool().unwrap_or(false) as u8, s(&e["expr"])),
            "unit" => writeln!(out, "{} unit {}", head, s(&e["expr"])),
            "quantity" => writeln!(out, "{} quantity {}", head, s(&e["expr"])),
            "substance" => {
                let props: Vec<String> = e["properties"].as_array().map(|a| a.iter().map(|p| format!("{} {} {} doc={} IN {} OUT {}", s(&p["name"]), s(&p["inputName"]), s(&p["outputName"]), s(&p["doc"]), s(&p["input"]), s(&p["output"]))).collect()).unwrap_or_default();
                writeln!(out, "{} substance {} {}", head, s(&e["symbol"]), props.join(" ; "))
            }
            "category" => writeln!(out, "{} category {}", head, s(&e["displayName"])),
            "error" => writeln!(out, "{} error {}", head, s(&e["message"])),
            _ => writeln!(out, "jsonerror"),
        };
    }
    out
}
