//! Loader streams (C08 / C12 / C13): parsed definitions and whole-registry dumps.
use crate::c11_expr::fmt_e;
use crate::util::{hex, Opts};
use rink_core::ast::{Def, DefEntry, Defs};
use std::io::Write;

fn opt_hex(o: &Option<String>) -> String { match o { Some(s) => hex(s), None => "-".into() } }

pub fn fmt_def(d: &DefEntry) -> String {
    let head = format!("{} doc={} cat={} ", hex(&d.name), opt_hex(&d.doc), opt_hex(&d.category));
    match &*d.def {
        Def::BaseUnit { long_name } => format!("{}base {}", head, opt_hex(long_name)),
        Def::Prefix { expr, is_long } => format!("{}prefix {} {}", head, *is_long as u8, fmt_e(&expr.0)),
        Def::Unit { expr } => format!("{}unit {}", head, fmt_e(&expr.0)),
        Def::Quantity { expr } => format!("{}quantity {}", head, fmt_e(&expr.0)),
        Def::Substance { symbol, properties } => format!("{}substance {} {}", head, opt_hex(symbol), properties.iter().map(|p|
            format!("{} {} {} doc={} IN {} OUT {}", hex(&p.name), hex(&p.input_name), hex(&p.output_name), opt_hex(&p.doc), fmt_e(&p.input.0), fmt_e(&p.output.0))).collect::<Vec<_>>().join(" ; ")),
        Def::Category { display_name } => format!("{}category {}", head, hex(display_name)),
        Def::Error { message } => format!("{}error {}", head, hex(message)),
    }
}

/// `rkh defs --input FILE --out DIR` → DIR/defs.impl.txt
pub fn defs(o: &Opts) -> i32 {
    let text = std::fs::read_to_string(o.input.as_ref().expect("--input")).expect("read");
    let d: Defs = rink_core::loader::gnu_units::parse_str(&text);
    let mut w = o.writer("defs.impl.txt");
    for e in &d.defs { writeln!(w, "{}", fmt_def(e)).unwrap(); }
    w.flush().unwrap();
    0
}
