//! C19: drives a private `rink_sandbox::Alloc` through the `GlobalAlloc` trait.
//!
//! Output files in --out:
//!   req.txt    one request per line (the model driver reads exactly these lines)
//!   impl.txt   the implementation's canonical answer for each request line
//!   oracle.jsonl  direct violations of the property by the implementation (model-independent)
//!   stats.json input distribution
use crate::util::{Opts, Rng};
use rink_sandbox::Alloc;
use std::alloc::{GlobalAlloc, Layout};
use std::io::Write;
use std::sync::{Arc, Barrier, Mutex};

const HUGE: usize = (isize::MAX as usize) - 4096;

#[derive(Clone, Copy, Debug, PartialEq)]
pub enum Op {
    Alloc(usize, bool),
    Dealloc(usize),
    Realloc(usize, usize),
    Reset,
}

impl Op {
    fn line(&self) -> String {
        match *self {
            Op::Alloc(sz, z) => format!("alloc {} {} {}", sz, z as u8, (sz != HUGE) as u8),
            Op::Dealloc(i) => format!("dealloc {}", i),
            Op::Realloc(i, n) => format!("realloc {} {} {}", i, n, (n != HUGE) as u8),
            Op::Reset => "reset".to_string(),
        }
    }
    pub fn parse(line: &str) -> Option<Op> {
        let p: Vec<&str> = line.split_whitespace().collect();
        match p.as_slice() {
            ["alloc", s, z, _] => Some(Op::Alloc(s.parse().ok()?, *z != "0")),
            ["dealloc", i] => Some(Op::Dealloc(i.parse().ok()?)),
            ["realloc", i, n, _] => Some(Op::Realloc(i.parse().ok()?, n.parse().ok()?)),
            ["reset"] => Some(Op::Reset),
            _ => None,
        }
    }
}

/// One private allocator plus the harness's own bookkeeping of what is live.
struct Sess {
    a: Alloc,
    limit: usize,
    blocks: Vec<(*mut u8, Layout)>,
    live: usize,
    peak_live: usize, // largest `live` at an operation boundary since the last reset
}

pub struct Violation {
    pub what: String,
}

impl Sess {
    fn new(limit: usize) -> Sess {
        Sess { a: Alloc::new(limit), limit, blocks: vec![], live: 0, peak_live: 0 }
    }
    /// Reads `used` without a hook: `reset_max` stores `used` into `max`.
    /// Only called where the model performs a reset as well.
    fn used_via_reset(&mut self) -> usize {
        self.a.reset_max();
        self.a.get_max()
    }
    /// Executes one op, returns (canonical answer, oracle violations).
    fn exec(&mut self, op: Op, viol: &mut Vec<String>) -> String {
        match op {
            Op::Alloc(sz, z) => {
                // alignments 1..16, chosen by the size (the accounting is by requested size, whatever the alignment)
                let layout = Layout::from_size_align(sz, 1usize << (sz % 5)).unwrap();
                let p = unsafe { if z { self.a.alloc_zeroed(layout) } else { self.a.alloc(layout) } };
                if p.is_null() {
                    format!("null max={}", self.a.get_max())
                } else {
                    if z && sz < (1 << 26) {
                        let s = unsafe { std::slice::from_raw_parts(p, sz) };
                        if s.iter().any(|&b| b != 0) { viol.push("alloc_zeroed returned non-zero memory".into()); }
                    }
                    self.blocks.push((p, layout));
                    self.live += sz;
                    if self.live > self.limit {
                        viol.push(format!("operation succeeded with usage {} above limit {}", self.live, self.limit));
                    }
                    self.peak_live = self.peak_live.max(self.live);
                    let m = self.a.get_max();
                    if m < self.peak_live { viol.push(format!("peak {} below largest usage {} since reset", m, self.peak_live)); }
                    format!("ptr max={}", m)
                }
            }
            Op::Dealloc(i) => {
                if i >= self.blocks.len() { return "bad-op max=0".into(); }
                let (p, l) = self.blocks.remove(i);
                unsafe { self.a.dealloc(p, l) };
                self.live -= l.size();
                format!("unit max={}", self.a.get_max())
            }
            Op::Realloc(i, n) => {
                if i >= self.blocks.len() { return "bad-op max=0".into(); }
                let (p, l) = self.blocks.remove(i);
                // fill with a pattern so "original block intact" is observable
                let keep = l.size().min(64);
                unsafe { for k in 0..keep { *p.add(k) = (k as u8) ^ 0x5a; } }
                let q = unsafe { self.a.realloc(p, l, n) };
                if q.is_null() {
                    let s = unsafe { std::slice::from_raw_parts(p, keep) };
                    if s.iter().enumerate().any(|(k, &b)| b != (k as u8) ^ 0x5a) {
                        viol.push("refused realloc damaged the original block".into());
                    }
                    self.blocks.push((p, l));
                    format!("null max={}", self.a.get_max())
                } else {
                    let nl = Layout::from_size_align(n, l.align()).unwrap();
                    let s = unsafe { std::slice::from_raw_parts(q, keep.min(n)) };
                    if s.iter().enumerate().any(|(k, &b)| b != (k as u8) ^ 0x5a) {
                        viol.push("realloc lost the block contents".into());
                    }
                    self.blocks.push((q, nl));
                    self.live = self.live - l.size() + n;
                    if self.live > self.limit {
                        viol.push(format!("operation succeeded with usage {} above limit {}", self.live, self.limit));
                    }
                    self.peak_live = self.peak_live.max(self.live);
                    let m = self.a.get_max();
                    if m < self.peak_live { viol.push(format!("peak {} below largest usage {} since reset", m, self.peak_live)); }
                    format!("ptr max={}", m)
                }
            }
            Op::Reset => {
                let u = self.used_via_reset();
                if u != self.live { viol.push(format!("tracked usage {} differs from live total {}", u, self.live)); }
                self.peak_live = self.live;
                format!("unit used={} max={}", u, self.a.get_max())
            }
        }
    }
    fn finish(mut self) {
        for (p, l) in self.blocks.drain(..) { unsafe { self.a.dealloc(p, l) }; }
    }
}

fn run_seq(limit: usize, ops: &[Op], req: &mut impl Write, imp: &mut impl Write, orc: &mut impl Write, nviol: &mut u64) {
    let mut s = Sess::new(limit);
    writeln!(req, "init {}", limit).unwrap();
    writeln!(imp, "ok").unwrap();
    for (k, &op) in ops.iter().enumerate() {
        let mut viol = vec![];
        let before_null_used = None::<usize>;
        let _ = before_null_used;
        let res = std::panic::catch_unwind(std::panic::AssertUnwindSafe(|| { let mut v2 = vec![]; let a = s.exec(op, &mut v2); (a, v2) }));
        let (ans, more) = match res { Ok(x) => x, Err(_) => ("panic".to_string(), vec!["the allocator panicked (arithmetic overflow in its accounting)".to_string()]) };
        let panicked = ans == "panic";
        viol.extend(more);
        writeln!(req, "{}", op.line()).unwrap();
        writeln!(imp, "{}", ans).unwrap();
        if panicked {
            for v in viol {
                *nviol += 1;
                if *nviol <= 50 {
                    let hist: Vec<String> = std::iter::once(format!("init {}", limit)).chain(ops[..=k].iter().map(|o| o.line())).collect();
                    writeln!(orc, "{}", serde_json::json!({"property":"C19","what":v,"history":hist})).unwrap();
                }
            }
            std::mem::forget(s);
            return;
        }
        for v in viol {
            *nviol += 1;
            if *nviol <= 50 {
                let hist: Vec<String> = std::iter::once(format!("init {}", limit)).chain(ops[..=k].iter().map(|o| o.line())).collect();
                writeln!(orc, "{}", serde_json::json!({"property":"C19","what":v,"history":hist})).unwrap();
            }
        }
    }
    // final reset: observes `used` at the end of every enumerated sequence
    let mut viol = vec![];
    let ans = match std::panic::catch_unwind(std::panic::AssertUnwindSafe(|| { let mut v2 = vec![]; let a = s.exec(Op::Reset, &mut v2); (a, v2) })) {
        Ok((a, v2)) => { viol.extend(v2); a }
        Err(_) => { viol.push("the allocator panicked".to_string()); "panic".to_string() }
    };
    writeln!(req, "reset").unwrap();
    writeln!(imp, "{}", ans).unwrap();
    for v in viol {
        *nviol += 1;
        if *nviol <= 50 {
            let hist: Vec<String> = std::iter::once(format!("init {}", limit)).chain(ops.iter().map(|o| o.line())).chain(std::iter::once("reset".to_string())).collect();
            writeln!(orc, "{}", serde_json::json!({"property":"C19","what":v,"history":hist})).unwrap();
        }
    }
    s.finish();
}

fn alphabet(limit: usize) -> Vec<Op> {
    let sizes = [1usize, 16, limit / 2, limit, limit + 1];
    let mut v = vec![];
    for &s in &sizes { v.push(Op::Alloc(s, false)); }
    for &s in &sizes { v.push(Op::Alloc(s, true)); }
    for &s in &sizes { v.push(Op::Realloc(0, s)); }
    v.push(Op::Dealloc(0));
    v
}

fn valid_next(nblocks: usize, op: Op) -> bool {
    match op { Op::Dealloc(i) | Op::Realloc(i, _) => i < nblocks, _ => true }
}

/// depth-first enumeration of all valid sequences of length 1..=maxlen
fn enumerate(limit: usize, maxlen: usize, f: &mut dyn FnMut(&[Op])) {
    let alpha = alphabet(limit);
    fn go(alpha: &[Op], maxlen: usize, cur: &mut Vec<Op>, f: &mut dyn FnMut(&[Op])) {
        if !cur.is_empty() { f(cur); }
        if cur.len() == maxlen { return; }
        // number of blocks is a static upper bound: allocs that fail do not add a block, so
        // validity is decided at run time by Sess::exec (bad-op); prune only the obvious case
        let allocs = cur.iter().filter(|o| matches!(o, Op::Alloc(..))).count();
        let deallocs = cur.iter().filter(|o| matches!(o, Op::Dealloc(..))).count();
        for &op in alpha {
            if !valid_next(allocs.saturating_sub(deallocs), op) { continue; }
            cur.push(op);
            go(alpha, maxlen, cur, f);
            cur.pop();
        }
    }
    go(&alpha, maxlen, &mut vec![], f);
}

fn concurrent(limit: usize, nthreads: usize, rounds: usize, ops_per_round: usize, seed: u64, viol: &mut Vec<serde_json::Value>) -> u64 {
    let a = Arc::new(Alloc::new(limit));
    let barrier = Arc::new(Barrier::new(nthreads + 1));
    let live_total = Arc::new(Mutex::new(vec![0usize; nthreads]));
    // bytes granted and not yet handed back, counted by the harness itself: incremented after a grant returns,
    // decremented before the block is handed back, so it never exceeds what the allocator has really granted;
    // seeing it above the limit means the allocator admitted an operation beyond the limit (at any instant,
    // not only at the quiescent points)
    let live_now = Arc::new(std::sync::atomic::AtomicUsize::new(0));
    let over = Arc::new(std::sync::atomic::AtomicUsize::new(0));
    let died: Arc<Mutex<Vec<String>>> = Arc::new(Mutex::new(vec![]));
    let mut handles = vec![];
    for t in 0..nthreads {
        let a = a.clone();
        let barrier = barrier.clone();
        let live_total = live_total.clone();
        let live_now = live_now.clone();
        let over = over.clone();
        let died = died.clone();
        handles.push(std::thread::spawn(move || {
            let mut rng = Rng::new(seed.wrapping_add(t as u64 * 7919));
            let mut blocks: Vec<(usize, Layout)> = vec![];
            let mut nops = 0u64;
            for _ in 0..rounds {
                // a worker that dies (a panic inside the allocator) must not leave the others waiting at the barrier
                let round = std::panic::catch_unwind(std::panic::AssertUnwindSafe(|| {
                for _ in 0..ops_per_round {
                    nops += 1;
                    let sz = match rng.below(6) { 0 => 1, 1 => 16, 2 => limit / 2, 3 => limit, 4 => limit + 1, _ => 1 + rng.below((limit / nthreads.max(1)) as u64 + 1) as usize };
                    match rng.below(4) {
                        0 | 1 => {
                            let l = Layout::from_size_align(sz, 1).unwrap();
                            let p = unsafe { if rng.chance(1, 2) { a.alloc(l) } else { a.alloc_zeroed(l) } };
                            if !p.is_null() {
                                let now = live_now.fetch_add(sz, std::sync::atomic::Ordering::SeqCst) + sz;
                                if now > limit { over.fetch_max(now, std::sync::atomic::Ordering::SeqCst); }
                                blocks.push((p as usize, l));
                            }
                        }
                        2 if !blocks.is_empty() => {
                            let i = rng.below(blocks.len() as u64) as usize;
                            let (p, l) = blocks.swap_remove(i);
                            live_now.fetch_sub(l.size(), std::sync::atomic::Ordering::SeqCst);
                            unsafe { a.dealloc(p as *mut u8, l) };
                        }
                        3 if !blocks.is_empty() => {
                            let i = rng.below(blocks.len() as u64) as usize;
                            let (p, l) = blocks.swap_remove(i);
                            // a shrink is given back before the call, a growth is counted after it
                            if sz < l.size() { live_now.fetch_sub(l.size() - sz, std::sync::atomic::Ordering::SeqCst); }
                            let q = unsafe { a.realloc(p as *mut u8, l, sz) };
                            if q.is_null() {
                                if sz < l.size() { live_now.fetch_add(l.size() - sz, std::sync::atomic::Ordering::SeqCst); }
                                blocks.push((p, l));
                            } else {
                                if sz > l.size() {
                                    let now = live_now.fetch_add(sz - l.size(), std::sync::atomic::Ordering::SeqCst) + (sz - l.size());
                                    if now > limit { over.fetch_max(now, std::sync::atomic::Ordering::SeqCst); }
                                }
                                blocks.push((q as usize, Layout::from_size_align(sz, 1).unwrap()));
                            }
                        }
                        _ => {}
                    }
                }
                }));
                if let Err(e) = round {
                    let msg = e.downcast_ref::<&str>().map(|s| s.to_string()).or_else(|| e.downcast_ref::<String>().cloned()).unwrap_or_default();
                    died.lock().unwrap().push(msg);
                }
                live_total.lock().unwrap()[t] = blocks.iter().map(|b| b.1.size()).sum();
                barrier.wait(); // quiescent: main thread inspects
                barrier.wait();
            }
            for (p, l) in blocks { live_now.fetch_sub(l.size(), std::sync::atomic::Ordering::SeqCst); unsafe { a.dealloc(p as *mut u8, l) }; }
            nops
        }));
    }
    let mut peak_seen = 0usize;
    for r in 0..rounds {
        barrier.wait();
        let live: usize = live_total.lock().unwrap().iter().sum();
        let peak = a.get_max();
        peak_seen = peak_seen.max(live);
        if peak < peak_seen {
            viol.push(serde_json::json!({"property":"C19","what":format!("concurrent: peak {} below quiescent usage {} (threads={}, round={}, seed={})", peak, peak_seen, nthreads, r, seed)}));
        }
        if live > limit {
            viol.push(serde_json::json!({"property":"C19","what":format!("concurrent: live {} above limit {} (threads={}, round={}, seed={})", live, limit, nthreads, r, seed)}));
        }
        a.reset_max();
        let used = a.get_max();
        peak_seen = live;
        if used != live {
            viol.push(serde_json::json!({"property":"C19","what":format!("concurrent: tracked usage {} differs from live total {} at quiescence (threads={}, round={}, seed={})", used, live, nthreads, r, seed)}));
        }
        barrier.wait();
    }
    let mut total = 0;
    for h in handles { total += h.join().unwrap_or(0); }
    for msg in died.lock().unwrap().iter().take(3) {
        viol.push(serde_json::json!({"property":"C19","what":format!("concurrent: a thread panicked inside the allocator: {} (threads={}, seed={})", msg, nthreads, seed)}));
    }
    let worst = over.load(std::sync::atomic::Ordering::SeqCst);
    if worst > limit {
        viol.push(serde_json::json!({"property":"C19","what":format!("concurrent: {} bytes were granted at the same time, above the limit {} (threads={}, seed={})", worst, limit, nthreads, seed)}));
    }
    a.reset_max();
    if a.get_max() != 0 {
        viol.push(serde_json::json!({"property":"C19","what":format!("concurrent: usage {} after freeing everything (threads={}, seed={})", a.get_max(), nthreads, seed)}));
    }
    total
}

pub fn run(o: &Opts) -> i32 {
    std::panic::set_hook(Box::new(|_| {}));
    let mut req = o.writer("req.txt");
    let mut imp = o.writer("impl.txt");
    let mut orc = o.writer("oracle.jsonl");
    let mut nviol = 0u64;
    let mut nseq = 0u64;
    let mut nops = 0u64;
    let mut samples: Vec<Vec<String>> = vec![];
    let mut by_len = std::collections::BTreeMap::<usize, u64>::new();

    // 0. corpus-like fixed histories (the witnesses of past defects run first)
    let fixed: Vec<(usize, Vec<Op>)> = vec![
        (2000, vec![Op::Alloc(10, false), Op::Realloc(0, 1000)]),
        (2000, vec![Op::Alloc(10, false), Op::Realloc(0, 1000), Op::Reset, Op::Realloc(0, 1500)]),
        (usize::MAX, vec![Op::Alloc(HUGE, false), Op::Alloc(HUGE, true), Op::Alloc(8, false), Op::Realloc(0, HUGE)]),
    ];
    for (l, ops) in &fixed {
        run_seq(*l, ops, &mut req, &mut imp, &mut orc, &mut nviol);
        nseq += 1; nops += ops.len() as u64;
        samples.push(ops.iter().map(|x| x.line()).collect());
    }

    // 1. bounded-exhaustive single-thread sequences
    let maxlen = if o.thorough { 5 } else { 4 };
    for &limit in &[64usize, 4096] {
        let lim_len = if limit == 64 { maxlen } else { maxlen - 1 };
        enumerate(limit, lim_len, &mut |ops| {
            run_seq(limit, ops, &mut req, &mut imp, &mut orc, &mut nviol);
            nseq += 1; nops += ops.len() as u64;
            *by_len.entry(ops.len()).or_insert(0) += 1;
            if nseq % 20011 == 0 && samples.len() < 12 { samples.push(ops.iter().map(|x| x.line()).collect()); }
        });
    }

    // 2. long random single-thread sequences with interleaved resets
    let mut rng = Rng::new(o.seed);
    let nrand = if o.thorough { 4000 } else { 400 };
    for k in 0..nrand {
        let limit = *rng.pick(&[64usize, 1000, 4096, 1 << 16, 1 << 20]);
        let len = 20 + rng.below(200) as usize;
        let mut ops = vec![];
        let mut nb = 0usize; // upper bound on live blocks (failed allocs make this an over-estimate; exec answers bad-op then)
        for _ in 0..len {
            let sz = match rng.below(7) { 0 => 1, 1 => 16, 2 => limit / 2, 3 => limit, 4 => limit + 1, 5 => limit / 8, _ => 1 + rng.below(limit as u64) as usize };
            match rng.below(10) {
                0..=3 => { ops.push(Op::Alloc(sz, rng.chance(1, 2))); nb += 1; }
                4..=5 if nb > 0 => { ops.push(Op::Dealloc(rng.below(nb as u64) as usize)); }
                6..=8 if nb > 0 => { ops.push(Op::Realloc(rng.below(nb as u64) as usize, sz)); }
                9 => ops.push(Op::Reset),
                _ => { ops.push(Op::Alloc(sz, false)); nb += 1; }
            }
        }
        run_seq(limit, &ops, &mut req, &mut imp, &mut orc, &mut nviol);
        nseq += 1; nops += ops.len() as u64;
        if k < 2 { samples.push(ops.iter().take(12).map(|x| x.line()).collect()); }
    }

    // 3. concurrent runs: quiescent-point oracle only (the real interleaving is not observable)
    let mut cviol = vec![];
    let mut cops = 0u64;
    let mut cruns = 0u64;
    let thread_counts: &[usize] = if o.thorough { &[2, 3, 4, 8, 12, 16] } else { &[2, 4, 16] };
    for &n in thread_counts {
        let reps = if o.thorough { 6 } else { 2 };
        for r in 0..reps {
            cops += concurrent(1 << 16, n, if o.thorough { 40 } else { 15 }, 400, o.seed * 1000 + r as u64 + n as u64 * 31, &mut cviol);
            cruns += 1;
        }
    }
    // 3a. the peak while several threads allocate at the same instant: all blocks are live when the peak is read,
    //     so it must be at least their total (threads are released together by spinning on one counter)
    let cores = std::thread::available_parallelism().map(|x| x.get()).unwrap_or(2);
    for &n in [2usize, 3, 4].iter().filter(|n| **n < cores.max(3)) {
        use std::sync::atomic::{AtomicUsize, Ordering::SeqCst};
        // (spinning, with a yield now and then so that the run also finishes on a machine with fewer cores)
        fn wait_for(c: &AtomicUsize, at_least: usize) { let mut k = 0u32; while c.load(SeqCst) < at_least { k += 1; if k % 2048 == 0 { std::thread::yield_now(); } else { std::hint::spin_loop(); } } }
        let a = Arc::new(Alloc::new(1 << 30));
        let phase = Arc::new(AtomicUsize::new(0));
        let acks = Arc::new(AtomicUsize::new(0));
        let panicked = Arc::new(AtomicUsize::new(0));
        let rounds = if o.thorough { 200_000 } else { 24_000 } / n;
        let hs: Vec<_> = (0..n).map(|t| { let (a, phase, acks, panicked) = (a.clone(), phase.clone(), acks.clone(), panicked.clone()); std::thread::spawn(move || {
            let l = Layout::from_size_align(16usize << (t % 8), 8).unwrap();
            for r in 0..rounds {
                wait_for(&phase, 2 * r + 1);
                let p = std::panic::catch_unwind(std::panic::AssertUnwindSafe(|| unsafe { a.alloc(l) } as usize)).unwrap_or(usize::MAX);
                acks.fetch_add(1, SeqCst);
                wait_for(&phase, 2 * r + 2);
                if p != 0 && p != usize::MAX { let _ = std::panic::catch_unwind(std::panic::AssertUnwindSafe(|| unsafe { a.dealloc(p as *mut u8, l) })); }
                if p == usize::MAX { panicked.fetch_add(1, SeqCst); }
                acks.fetch_add(1, SeqCst);
            }
        }) }).collect();
        let total: usize = (0..n).map(|t| 16usize << (t % 8)).sum();
        let mut bad = 0u64;
        for r in 0..rounds {
            a.reset_max();
            phase.store(2 * r + 1, SeqCst);
            wait_for(&acks, (2 * r + 1) * n);
            let peak = a.get_max();
            if peak < total { bad += 1; if bad <= 3 { cviol.push(serde_json::json!({"property":"C19","what":format!("concurrent: {} threads allocated {} bytes in total, all live, the peak says {} (round {})", n, total, peak, r)})); } }
            phase.store(2 * r + 2, SeqCst);
            wait_for(&acks, (2 * r + 2) * n);
        }
        for h in hs { let _ = h.join(); }
        if panicked.load(SeqCst) > 0 { cviol.push(serde_json::json!({"property":"C19","what":format!("concurrent: the allocator panicked {} times while {} threads allocated at the same instant", panicked.load(SeqCst), n)})); }
        cops += (rounds * n * 2) as u64;
        cruns += 1;
    }
    // 3b. contention at the limit: every thread asks for more than half of the limit in a tight loop, so two
    //     grants can never be live together; the harness counts what is granted at the same time
    for &n in thread_counts {
        let limit = 100usize;
        let a = Arc::new(Alloc::new(limit));
        let live_now = Arc::new(std::sync::atomic::AtomicUsize::new(0));
        let worst = Arc::new(std::sync::atomic::AtomicUsize::new(0));
        let start = Arc::new(Barrier::new(n));
        let iters = if o.thorough { 400_000 } else { 60_000 };
        let hs: Vec<_> = (0..n).map(|t| { let (a, live_now, worst, start) = (a.clone(), live_now.clone(), worst.clone(), start.clone()); std::thread::spawn(move || {
            use std::sync::atomic::Ordering::SeqCst;
            let sizes = [60usize, 51, 100, 70];
            start.wait();
            for i in 0..iters {
                let sz = sizes[(i + t) % sizes.len()];
                let l = Layout::from_size_align(sz, 1).unwrap();
                let p = unsafe { if i % 3 == 0 { a.alloc_zeroed(l) } else { a.alloc(l) } };
                if !p.is_null() {
                    let now = live_now.fetch_add(sz, SeqCst) + sz;
                    if now > limit { worst.fetch_max(now, SeqCst); }
                    std::hint::spin_loop();
                    live_now.fetch_sub(sz, SeqCst);
                    unsafe { a.dealloc(p, l) };
                }
            }
        }) }).collect();
        for h in hs {
            if let Err(e) = h.join() {
                let msg = e.downcast_ref::<&str>().map(|s| s.to_string()).or_else(|| e.downcast_ref::<String>().cloned()).unwrap_or_default();
                cviol.push(serde_json::json!({"property":"C19","what":format!("contention: a thread panicked inside the allocator: {} ({} threads)", msg, n)}));
            }
        }
        cops += (n * iters) as u64; cruns += 1;
        let w = worst.load(std::sync::atomic::Ordering::SeqCst);
        if w > limit { cviol.push(serde_json::json!({"property":"C19","what":format!("contention: {} bytes were granted at the same time, above the limit {} ({} threads each asking for more than half of the limit)", w, limit, n)})); }
        a.reset_max();
        if a.get_max() != 0 { cviol.push(serde_json::json!({"property":"C19","what":format!("contention: usage {} after every block was freed ({} threads)", a.get_max(), n)})); }
    }
    for v in &cviol { nviol += 1; writeln!(orc, "{}", v).unwrap(); }

    req.flush().unwrap(); imp.flush().unwrap(); orc.flush().unwrap();
    crate::util::write_json(&format!("{}/stats.json", o.out), &serde_json::json!({
        "sequences": nseq, "ops": nops, "exhaustive_max_len": maxlen, "by_length": by_len,
        "random_sequences": nrand, "concurrent_runs": cruns, "concurrent_ops": cops,
        "oracle_violations": nviol, "samples": samples,
    }));
    0
}

/// Replays a history (file of request lines) against the implementation and prints the answers.
pub fn replay(o: &Opts) -> i32 {
    let path = o.input.clone().expect("--input");
    let text = std::fs::read_to_string(path).expect("read input");
    let mut sess: Option<Sess> = None;
    let mut nv = 0;
    for line in text.lines() {
        if let Some(l) = line.strip_prefix("init ") {
            if let Some(s) = sess.take() { s.finish(); }
            sess = Some(Sess::new(l.trim().parse().unwrap()));
            println!("ok");
            continue;
        }
        let op = match Op::parse(line) { Some(op) => op, None => { println!("bad-op"); continue; } };
        let mut viol = vec![];
        let ans = sess.as_mut().expect("init first").exec(op, &mut viol);
        println!("{}", ans);
        for v in viol { nv += 1; eprintln!("ORACLE {}", v); }
    }
    if let Some(s) = sess.take() { s.finish(); }
    if nv > 0 { 1 } else { 0 }
}
