//! C11 stream: expression trees → `Display` text → `parse_expr` → tree; compared with the
//! original tree (oracle) and with the Lean model's printer and parser.
//!   req.txt  `expr <prefix notation>`      impl.txt  `<hex text> <eof|trailing> <prefix notation of the re-parsed tree>`
use crate::util::{hex, Opts, Rng};
use rink_core::ast::{BinOpExpr, BinOpType, Degree, Expr, Function, UnaryOpExpr, UnaryOpType};
use rink_core::parsing::text_query::{parse_expr, Token, TokenIterator};
use rink_core::types::Numeric;
use std::io::Write;

pub fn fmt_e(e: &Expr) -> String {
    match e {
        Expr::Unit { name } => format!("U {}", hex(name)),
        Expr::Quote { string } => format!("Q {}", hex(string)),
        Expr::Const { value } => format!("C {}", crate::evalsess::fmt_numeric(value)),
        Expr::Date { .. } => "DATE".into(),
        Expr::BinOp(BinOpExpr { op, left, right }) => format!("B {} {} {}", op_name(*op), fmt_e(left), fmt_e(right)),
        Expr::UnaryOp(UnaryOpExpr { op, expr }) => match op {
            UnaryOpType::Negative => format!("N {}", fmt_e(expr)),
            UnaryOpType::Positive => format!("P {}", fmt_e(expr)),
            UnaryOpType::Degree(d) => format!("D {} {}", deg_name(*d), fmt_e(expr)),
        },
        Expr::Mul { exprs } => format!("M {}{}", exprs.len(), exprs.iter().map(|x| format!(" {}", fmt_e(x))).collect::<String>()),
        Expr::Of { property, expr } => format!("O {} {}", hex(property), fmt_e(expr)),
        Expr::Call { func, args } => format!("F {} {}{}", func.name(), args.len(), args.iter().map(|x| format!(" {}", fmt_e(x))).collect::<String>()),
        Expr::Error { .. } => "ERR".into(),
    }
}

fn op_name(op: BinOpType) -> &'static str {
    match op { BinOpType::Add => "add", BinOpType::Sub => "sub", BinOpType::Frac => "frac", BinOpType::Pow => "pow", BinOpType::Equals => "equals",
        BinOpType::ShiftL => "shl", BinOpType::ShiftR => "shr", BinOpType::Mod => "mod", BinOpType::And => "and", BinOpType::Or => "or", BinOpType::Xor => "xor" }
}
fn deg_name(d: Degree) -> &'static str {
    match d { Degree::Celsius => "celsius", Degree::Fahrenheit => "fahrenheit", Degree::Reaumur => "reaumur", Degree::Romer => "romer", Degree::Delisle => "delisle", Degree::Newton => "newton" }
}
const OPS: [BinOpType; 11] = [BinOpType::Add, BinOpType::Sub, BinOpType::Frac, BinOpType::Pow, BinOpType::Equals, BinOpType::ShiftL, BinOpType::ShiftR, BinOpType::Mod, BinOpType::And, BinOpType::Or, BinOpType::Xor];

fn leaves() -> Vec<Expr> {
    vec![Expr::new_unit("a".into()), Expr::new_unit("meter".into()), Expr::Quote { string: "x y".into() },
         Expr::new_const(Numeric::from(2)), Expr::new_const(Numeric::from_frac(5, 2))]
}

/// leaves the parser produces from quoted identifiers (`"a b"`), `\u` escapes and escaped quote strings:
/// names that are not a plain identifier, strings holding a quote, a line break or a tab
fn odd_leaves() -> Vec<Expr> {
    let mut v: Vec<Expr> = ["a b", "", "degC", "to", "per", "mod", "in", "and", "or", "xor", "celsius", "℃", "degF", "°F", "fahrenheit", "℉", "degRé", "°Ré", "degRe", "°Re", "réaumur", "reaumur",
            "degRø", "°Rø", "degRo", "°Ro", "rømer", "romer", "degDe", "°De", "delisle", "degN", "°N", "degnewton", "of", "now", "Å", "international", "int", "british", "survey", "irish", "aust", "australian", "roman", "egyptian", "greek", "olympic", "UKB", "surveyfoot", "intfoot", "a ", " a", "\\u41", "\"a\"", "a\t", " ", "  b  ", "\\", "\\u", "a\"", ">", ">x", "->", "<<", "*", "**", "µ", "a_b", "a$", "$a", "_", "é", "it\"s", "a\\b", "1x", "x-y", "2", "-", "a'b", " ", "x\ny", "0x1f", "°C", "m^2", "(", "a,b", "#"]
        .iter().map(|n| Expr::new_unit(n.to_string())).collect();
    for q in ["it's", "a\nb", "\t", "", "'", "a\"b", "''", "\n'"] { v.push(Expr::Quote { string: q.to_string() }); }
    v
}

/// every way to put `kids` under one constructor
fn parents(kids: &[Expr], out: &mut Vec<Expr>, small: bool) {
    for a in kids {
        out.push(Expr::new_negate(a.clone()));
        if !small { out.push(Expr::new_plus(a.clone())); }
        out.push(Expr::new_suffix(Degree::Celsius, a.clone()));
        out.push(Expr::new_of("foo", a.clone()));
        out.push(Expr::new_call(Function::Sin, vec![a.clone()]));
        for b in kids {
            for op in OPS { out.push(Expr::new_bin(op, a.clone(), b.clone())); }
            out.push(Expr::Mul { exprs: vec![a.clone(), b.clone()] });
            if !small { out.push(Expr::new_call(Function::Hypot, vec![a.clone(), b.clone()])); }
        }
    }
}

fn rand_expr(rng: &mut Rng, depth: u32) -> Expr {
    let lv = leaves();
    if depth == 0 || rng.chance(1, 4) { return if rng.chance(1, 12) { rng.pick(&odd_leaves()).clone() } else { rng.pick(&lv).clone() }; }
    match rng.below(9) {
        0 => Expr::new_negate(rand_expr(rng, depth - 1)),
        1 => Expr::new_plus(rand_expr(rng, depth - 1)),
        2 => Expr::new_suffix(*rng.pick(&[Degree::Celsius, Degree::Fahrenheit, Degree::Romer]), rand_expr(rng, depth - 1)),
        3 => Expr::new_of(*rng.pick(&["foo", "density"]), rand_expr(rng, depth - 1)),
        4 => { let n = rng.below(4) as usize; Expr::new_call(*rng.pick(&[Function::Sin, Function::Log, Function::Atan2, Function::Sqrt]), (0..n).map(|_| rand_expr(rng, depth - 1)).collect()) }
        5 => { let n = 2 + rng.below(3) as usize; Expr::Mul { exprs: (0..n).map(|_| rand_expr(rng, depth - 1)).collect() } }
        _ => Expr::new_bin(*rng.pick(&OPS), rand_expr(rng, depth - 1), rand_expr(rng, depth - 1)),
    }
}

pub fn answer(e: &Expr) -> String {
    let text = e.to_string();
    let mut it = TokenIterator::new(&text).peekable();
    let back = parse_expr(&mut it);
    let rest = matches!(it.peek(), Some(Token::Eof));
    format!("{} {} {}", hex(&text), if rest { "eof" } else { "trailing" }, fmt_e(&back))
}

/// `ExprString` (serialise through Display, deserialise through parse_expr + EOF check), via JSON
pub fn exprstring_roundtrip(e: &Expr) -> bool {
    use rink_core::ast::ExprString;
    let js = match serde_json::to_string(&ExprString(e.clone())) { Ok(j) => j, Err(_) => return false };
    match serde_json::from_str::<ExprString>(&js) { Ok(b) => b.0 == *e, Err(_) => false }
}

pub fn run(o: &Opts) -> i32 {
    let mut req = o.writer("req.txt");
    let mut imp = o.writer("impl.txt");
    let mut rng = Rng::new(o.seed);
    let mut total = 0u64;
    let mut samples = vec![];
    let mut orc = o.writer("oracle.jsonl");
    let mut jf = 0u64;
    let json_fail = &mut jf;
    let mut emit = |e: &Expr, total: &mut u64, samples: &mut Vec<String>| {
        let (al, _ws) = crate::evalsess::class_sets(&e.to_string());
        writeln!(req, "expr {} {}", al, fmt_e(e)).unwrap();
        writeln!(imp, "{}", answer(e)).unwrap();
        if !exprstring_roundtrip(e) { *json_fail += 1; if *json_fail <= 20 { writeln!(orc, "{}", serde_json::json!({"what": "ExprString JSON round trip differs", "expr": fmt_e(e), "text": e.to_string()})).unwrap(); } }
        *total += 1;
        if samples.len() < 10 && *total % 3001 == 1 { samples.push(e.to_string()); }
    };
    // exhaustive layers: depth 1, 2 over the leaf alphabet; depth 3 over a reduced alphabet
    let l0 = leaves();
    let mut l1 = vec![]; parents(&l0, &mut l1, false);
    for e in l0.iter().chain(l1.iter()) { emit(e, &mut total, &mut samples); }
    // the odd leaves alone, under every constructor, and next to a plain leaf
    let odd = odd_leaves();
    let mut o1 = vec![];
    for x in &odd { let mut t = vec![]; parents(&[x.clone()], &mut t, false); o1.extend(t); parents(&[l0[0].clone(), x.clone()], &mut o1, true); }
    for e in odd.iter().chain(o1.iter()) { emit(e, &mut total, &mut samples); }
    // property names that are not a plain word, over plain and odd operands
    for p in ["of", "a b", "", "to", "degC", "in", "a ", "\\u41", "x\"y", "(of)", "now", "per"] {
        for x in l0.iter().chain(odd.iter().take(8)) {
            emit(&Expr::new_of(p, x.clone()), &mut total, &mut samples);
            emit(&Expr::Mul { exprs: vec![l0[0].clone(), Expr::new_of(p, x.clone())] }, &mut total, &mut samples);
            emit(&Expr::new_negate(Expr::new_of(p, x.clone())), &mut total, &mut samples);
        }
    }
    // a sign in front of a name that starts like an operator
    for n in [">", ">x", "->", "-", "+", "*"] { emit(&Expr::new_negate(Expr::new_unit(n.to_string())), &mut total, &mut samples); emit(&Expr::new_plus(Expr::new_unit(n.to_string())), &mut total, &mut samples); }
    // depth 2: parents of (leaves ∪ depth-1 with two leaves only)
    let small0: Vec<Expr> = l0[..2].to_vec();
    let mut s1 = vec![]; parents(&small0, &mut s1, true);
    let mut kids2: Vec<Expr> = small0.clone(); kids2.extend(s1.iter().cloned());
    let mut l2 = vec![]; parents(&kids2, &mut l2, true);
    for e in &l2 { emit(e, &mut total, &mut samples); }
    if o.thorough {
        // depth 3 (every operator over every depth-2 shape in each operand position, three levels deep; single
        // leaf alphabet; the other operand is the leaf or one of four depth-1 shapes) — streamed, not materialised
        let tiny0 = vec![l0[0].clone()];
        let mut t1 = vec![]; parents(&tiny0, &mut t1, true);
        let mut k2 = tiny0.clone(); k2.extend(t1.iter().cloned());
        let mut t2 = vec![]; parents(&k2, &mut t2, true);
        let mut others: Vec<Expr> = tiny0.clone();
        for _ in 0..4 { others.push(rng.pick(&t1).clone()); }
        for a in &t2 {
            emit(&Expr::new_negate(a.clone()), &mut total, &mut samples);
            emit(&Expr::new_suffix(Degree::Celsius, a.clone()), &mut total, &mut samples);
            emit(&Expr::new_of("foo", a.clone()), &mut total, &mut samples);
            emit(&Expr::new_call(Function::Sin, vec![a.clone()]), &mut total, &mut samples);
            for b in &others {
                for op in OPS {
                    emit(&Expr::new_bin(op, a.clone(), b.clone()), &mut total, &mut samples);
                    emit(&Expr::new_bin(op, b.clone(), a.clone()), &mut total, &mut samples);
                }
                emit(&Expr::Mul { exprs: vec![a.clone(), b.clone()] }, &mut total, &mut samples);
                emit(&Expr::Mul { exprs: vec![b.clone(), a.clone()] }, &mut total, &mut samples);
            }
        }
    }
    let nrand = if o.thorough { 200_000 } else { 20_000 };
    for _ in 0..nrand { let d = 2 + rng.below(4) as u32; let e = rand_expr(&mut rng, d); emit(&e, &mut total, &mut samples); }
    drop(emit);
    req.flush().unwrap(); imp.flush().unwrap(); orc.flush().unwrap();
    crate::util::write_json(&format!("{}/stats.json", o.out), &serde_json::json!({"total": total, "samples": samples, "depth1": l1.len(), "depth2": l2.len()}));
    0
}

/// replay: the expression in prefix notation (as in req.txt, without the class field)
pub fn one(o: &Opts) -> i32 {
    let text = o.input.clone().unwrap_or_default();
    let toks: Vec<&str> = text.split(' ').collect();
    let mut pos = 0;
    let e = match parse_prefix(&toks, &mut pos) { Some(e) => e, None => { println!("bad expression"); return 2; } };
    let a = answer(&e);
    let f: Vec<&str> = a.splitn(3, ' ').collect();
    println!("printed: {}", e.to_string());
    println!("reparsed: {} ({})", f[2], f[1]);
    if f[1] != "eof" || f[2] != fmt_e(&e) { println!("DIFFERS from {}", fmt_e(&e)); return 1; }
    0
}

fn parse_prefix(t: &[&str], pos: &mut usize) -> Option<Expr> {
    let k = *t.get(*pos)?; *pos += 1;
    Some(match k {
        "U" => { let h = t.get(*pos)?; *pos += 1; Expr::new_unit(crate::evalsess::unhex(h)) }
        "Q" => { let h = t.get(*pos)?; *pos += 1; Expr::Quote { string: crate::evalsess::unhex(h) } }
        "C" => { let v = t.get(*pos)?; *pos += 1; let (n, d) = v.split_once('/')?; Expr::new_const(crate::evalsess::parse_number(&format!("{}/{}", n, d), "-")?.value) }
        "B" => { let op = t.get(*pos)?; *pos += 1; let o = OPS.iter().find(|x| op_name(**x) == *op)?; let l = parse_prefix(t, pos)?; let r = parse_prefix(t, pos)?; Expr::new_bin(*o, l, r) }
        "N" => Expr::new_negate(parse_prefix(t, pos)?),
        "P" => Expr::new_plus(parse_prefix(t, pos)?),
        "D" => { let d = t.get(*pos)?; *pos += 1; let dg = [Degree::Celsius, Degree::Fahrenheit, Degree::Reaumur, Degree::Romer, Degree::Delisle, Degree::Newton].into_iter().find(|x| deg_name(*x) == *d)?; Expr::new_suffix(dg, parse_prefix(t, pos)?) }
        "M" => { let n: usize = t.get(*pos)?.parse().ok()?; *pos += 1; let mut v = vec![]; for _ in 0..n { v.push(parse_prefix(t, pos)?); } Expr::Mul { exprs: v } }
        "O" => { let h = t.get(*pos)?; *pos += 1; Expr::new_of(&crate::evalsess::unhex(h), parse_prefix(t, pos)?) }
        "F" => { let f = Function::from_name(t.get(*pos)?)?; *pos += 1; let n: usize = t.get(*pos)?.parse().ok()?; *pos += 1; let mut v = vec![]; for _ in 0..n { v.push(parse_prefix(t, pos)?); } Expr::new_call(f, v) }
        _ => return None,
    })
}

pub fn parse_prefix_pub(t: &[&str], pos: &mut usize) -> Option<Expr> { parse_prefix(t, pos) }
