//! C04 stream: arbitrary input lines evaluated one after another on long-lived contexts.
//! Four sources — grammar-directed queries over the whole surface syntax, token soup,
//! mutations of valid queries (the test-suite's own inputs are the seed corpus) and raw
//! Unicode — each at most ~500 characters.  Every line is classed cheap / expensive by a
//! lexical bound on the size of its exact result; only cheap lines may not time out.
use crate::evalsess::class_sets;
use crate::gen_units::Db;
use crate::util::{hex, Opts, Rng};
use serde_json::json;
use std::io::Write;

pub fn req_line_t(text: &str) -> String {
    let (al, ws) = class_sets(text);
    format!("evalt {} {} {}", hex(text), al, ws)
}

const FUNCS: [&str; 26] = ["sqrt", "exp", "ln", "log", "log2", "log10", "hypot", "sin", "cos", "tan", "asin", "acos", "atan", "atan2", "sinh", "cosh", "tanh", "asinh", "acosh", "atanh", "abs", "floor", "ceil", "round", "trunc", "nosuchfn"];
const TOKENS: [&str; 96] = ["1", "0", "2", "10", "-1", "0.5", ".5", "5.", "1e3", "1e-3", "1E+2", "0x1f", "0o17", "0b101", "1_000", "1|3", "1/3", "m", "s", "kg", "meter", "feet", "ft", "hour", "hours", "kWh", "USD", "EUR",
    "degC", "°C", "°F", "celsius", "kelvin", "K", "now", "ans", "_", "water", "gold", "H2O", "NaCl", "density", "mass", "of", "to", "->", "→", "in", "per", "+", "-", "*", "/", "^", "**", "<<", ">>", "mod", "and", "or", "xor", "=", "(", ")", ",", ";",
    "#", "#2020-01-01#", "#now#", "'", "\"", "'quoted unit'", "\\u00b0", "\\u", "\\u{110000}", "units", "for", "units for", "factorize", "search", "digits", "base", "hex", "oct", "bin", "frac", "fraction", "sci", "eng", "UTC", "+05:00", "\"US/Pacific\"", "½", "²", "e", "pi"];

/// lexical bound on the result size: anything that can make an exact result astronomically large (a word or number of four or more characters after a power-like operator counts: hex literals, named large numbers)
pub fn classify(text: &str) -> &'static str {
    let cs: Vec<char> = text.chars().collect();
    let n = cs.len();
    let mut pows = 0usize;
    let mut i = 0usize;
    let mut long_after = false; // a number of >= 4 digits right after an exponent-like operator
    let digits_from = |k: usize| -> usize { let mut j = k; while j < n && (cs[j] == ' ' || cs[j] == '+' || cs[j] == '-' || cs[j] == '(') { j += 1; } let s = j; while j < n && (cs[j].is_alphanumeric() || cs[j] == '_' || cs[j] == '.') { j += 1; }
        // scientific notation (`3e6`) counts as long whatever its length
        let sci = j > s + 1 && cs[s].is_ascii_digit() && cs[s..j].iter().any(|c| *c == 'e' || *c == 'E');
        if sci { 9 } else { j - s } };
    while i < n {
        let c = cs[i];
        if c == '^' || (c == '*' && i + 1 < n && cs[i + 1] == '*') || "⁰¹²³⁴⁵⁶⁷⁸⁹".contains(c) {
            pows += 1;
            let k = if c == '*' { i + 2 } else { i + 1 };
            if digits_from(k) >= 4 { long_after = true; }
        }
        if (c == '<' && i + 1 < n && cs[i + 1] == '<') || (c == '>' && i + 1 < n && cs[i + 1] == '>') {
            pows += 1;
            if digits_from(i + 2) >= 4 { long_after = true; }
        }
        if (c == 'e' || c == 'E') && i > 0 && (cs[i - 1].is_ascii_digit() || cs[i - 1] == '.' || cs[i - 1] == '_') && digits_from(i + 1) >= 4 { long_after = true; }
        i += 1;
    }
    // a product of numbers after a power-like operator (`1 << 10 10 10`): count all later digits
    if let Some(k) = cs.iter().position(|c| *c == '^' || *c == '<' || *c == '>' || *c == '*') {
        if cs[k..].iter().filter(|c| c.is_ascii_digit()).count() >= 6 && pows >= 1 { long_after = true; }
    }
    let lower = text.to_lowercase();
    for kw in ["digits", "base", "exp", "factorize"] {
        if lower.contains(kw) { if kw == "factorize" || kw == "exp" { pows += 1; } else { let at = lower.find(kw).unwrap() + kw.len(); if digits_from(text[..at.min(text.len())].chars().count()) >= 4 { long_after = true; } } }
    }
    // history: a power applied to the previous answer compounds from query to query
    // factorize searches the quantity table; the search space grows with the complexity of the unit
    if lower.contains("factorize") && text.chars().count() > 30 { long_after = true; }
    let uses_ans = lower.contains("ans") || text.contains('_');
    if pows >= 2 || long_after || (uses_ans && pows >= 1) { "expensive" } else { "cheap" }
}

fn number(rng: &mut Rng) -> String {
    match rng.below(22) {
        0 => format!("{}", rng.below(10)),
        1 => format!("{}", rng.below(100000)),
        2 => format!("{}.{}", rng.below(100), rng.below(1000)),
        3 => format!(".{}", rng.below(100)),
        4 => format!("{}.", rng.below(100)),
        5 => format!("{}e{}", rng.below(100), rng.range(-30, 30)),
        6 => format!("{}.{}E{}", rng.below(10), rng.below(100), rng.range(-300, 300)),
        7 => format!("0x{:x}", rng.next() & 0xffffff),
        8 => format!("0o{:o}", rng.below(4096)),
        9 => format!("0b{:b}", rng.below(1024)),
        10 => format!("{}_{:03}", rng.below(1000), rng.below(1000)),
        11 => format!("{}|{}", rng.below(100), rng.below(10)),
        12 => "0".into(),
        13 => "1".into(),
        14 => format!("{}", rng.next()),
        15 => "9".repeat(1 + rng.below(60) as usize),
        16 => format!("0.{}1", "0".repeat(rng.below(40) as usize)),
        17 => format!("{}e", rng.below(10)),
        18 => format!("0x"),
        19 => format!("1e{}", rng.range(-999, 999)),
        20 => if rng.chance(1, 2) { format!("{}.{}.{}", rng.below(10), rng.below(10), rng.below(10)) } else { (*rng.pick(&["exp(1000)", "ln(0)", "ln(-1)", "-exp(1000)", "exp(-1000)", "sqrt(2)", "asin(2)", "exp(710)"])).to_string() },
        _ => format!("-{}", rng.below(100)),
    }
}

fn unit(db: &Db, rng: &mut Rng) -> String {
    match rng.below(14) {
        0..=4 => db.rand_name(rng),
        5 => (*rng.pick(&["m", "s", "kg", "K", "A", "mol", "cd", "bit", "USD", "radian", "steradian", "euro"])).into(),
        6 => (*rng.pick(&["now", "ans", "_", "ANS"])).into(),
        7 => (*rng.pick(&["water", "gold", "air", "H2O", "NaCl", "C8H10N4O2", "Xx2", "He"])).into(),
        8 => (*rng.pick(&["degC", "degF", "°C", "°F", "celsius", "fahrenheit", "kelvin", "°Ré", "°Rø", "°De", "°N", "reaumur"])).into(),
        9 => format!("'{}'", rng.pick(&["new unit", "", "a'b", "m", "1"])),
        10 => (*rng.pick(&["nosuchunit", "kilokilometer", "ms", "mss", "s s", "µm", "Ω", "Å", "½", "日本"])).into(),
        11 => format!("{}{}", rng.pick(&["kilo", "milli", "k", "M", "µ", "yocto", "Ki", "da"]), db.rand_name(rng)),
        12 => format!("{}s", db.rand_name(rng)),
        _ => (*rng.pick(&["second", "hour", "day", "year", "century", "ns", "week"])).into(),
    }
}

fn date(rng: &mut Rng) -> String {
    match rng.below(14) {
        0 => format!("#{:04}-{:02}-{:02}#", rng.range(0, 9999), rng.range(0, 13), rng.range(0, 32)),
        1 => format!("#{:04}-{:02}-{:02} {:02}:{:02}:{:02}#", rng.range(1, 9999), rng.range(1, 12), rng.range(1, 28), rng.range(0, 24), rng.range(0, 60), rng.range(0, 61)),
        2 => format!("#{:04}-{:02}-{:02} {:02}:{:02}:{:02}.{} {}{:02}:{:02}#", rng.range(1, 9999), rng.range(1, 12), rng.range(1, 28), rng.range(0, 23), rng.range(0, 59), rng.range(0, 59), "1".repeat(rng.below(12) as usize), if rng.chance(1, 2) { "+" } else { "-" }, rng.range(0, 30), rng.range(0, 70)),
        3 => "#now#".into(),
        4 => format!("#{:02}:{:02} {}#", rng.range(0, 25), rng.range(0, 61), rng.pick(&["US/Pacific", "Europe/London", "UTC", "Nowhere/City", "Asia/Kolkata"])),
        5 => "#".into(),
        6 => "##".into(),
        7 => format!("#{}#", rng.pick(&["Jan 5 2020", "monday", "2020-W05", "2021-366", "12:00 am", "13:00 pm", "--03-05", "1970-01-01T00:00:00Z", "99999-01-01", "0000-00-00", "-1-01-01"])),
        8 => format!("#2020-01-01 00:00:00 +{}:00#", rng.pick(&["24", "99", "999999999", "9999999999999"])),
        9 => "#2020-01-01".into(),
        10 => format!("#{}#", number(rng)),
        11 => "now".into(),
        12 => format!("#2020-02-30 {:02}:{:02}#", rng.range(0, 30), rng.range(0, 70)),
        _ => format!("#{:04}-{:02}-{:02}T{:02}:{:02}#", rng.range(1900, 2100), rng.range(1, 12), rng.range(1, 28), rng.range(0, 23), rng.range(0, 59)),
    }
}

fn expr(db: &Db, rng: &mut Rng, depth: u32) -> String {
    if depth == 0 {
        return match rng.below(8) { 0..=2 => number(rng), 3..=5 => unit(db, rng), 6 => format!("{} {}", number(rng), unit(db, rng)), _ => date(rng) };
    }
    let d = depth - 1;
    match rng.below(30) {
        0 => format!("{} + {}", expr(db, rng, d), expr(db, rng, d)),
        1 => format!("{} - {}", expr(db, rng, d), expr(db, rng, d)),
        2 => format!("{} * {}", expr(db, rng, d), expr(db, rng, d)),
        3 => format!("{} {}", expr(db, rng, d), expr(db, rng, d)),
        4 => format!("{} / {}", expr(db, rng, d), expr(db, rng, d)),
        5 => format!("{} per {}", expr(db, rng, d), expr(db, rng, d)),
        6 => format!("{}^{}", expr(db, rng, d), rng.range(-4, 9)),
        7 => format!("{}**{}", expr(db, rng, d), expr(db, rng, 0)),
        8 => format!("({})", expr(db, rng, d)),
        9 => format!("-{}", expr(db, rng, d)),
        10 => format!("+{}", expr(db, rng, d)),
        11 => format!("{}({})", rng.pick(&FUNCS[..]), expr(db, rng, d)),
        12 => format!("{}({}, {})", rng.pick(&FUNCS[..]), expr(db, rng, d), expr(db, rng, d)),
        13 => format!("{} mod {}", expr(db, rng, d), expr(db, rng, d)),
        14 => format!("{} << {}", expr(db, rng, d), rng.range(-3, 70)),
        15 => format!("{} >> {}", expr(db, rng, d), rng.range(-3, 70)),
        16 => format!("{} {} {}", expr(db, rng, d), rng.pick(&["and", "or", "xor"]), expr(db, rng, d)),
        17 => format!("{} of {}", rng.pick(&["density", "mass", "molar_mass", "specific_heat", "volume", "nosuch", "atomic_number"]), expr(db, rng, d)),
        18 => format!("{} {}", number(rng), rng.pick(&["degC", "°F", "celsius", "kelvin", "°Ré", "degrees", "°"])),
        19 => format!("{}{}", expr(db, rng, d), rng.pick(&["²", "³", "⁻¹", "⁴", "¹⁰"])),
        20 => format!("{} = {}", unit(db, rng), expr(db, rng, d)),
        21 => format!("{} {}", number(rng), unit(db, rng)),
        22 => format!("{}|{}", expr(db, rng, d), expr(db, rng, d)),
        23 => format!("{} %", number(rng)),
        24 => format!("sqrt({})^2", expr(db, rng, d)),
        25 => format!("{} ^ ({})", expr(db, rng, d), expr(db, rng, d)),
        26 => format!("{} {} ago", number(rng), unit(db, rng)),
        27 => format!("{} - {}", date(rng), date(rng)),
        28 => match rng.below(4) {
            0 => format!("{} {} {}({}) {}", date(rng), rng.pick(&["+", "-"]), rng.pick(&["ln", "sqrt", "exp", "asin", "log2"]), rng.range(-3, 2000), rng.pick(&["s", "hours", "years"])),
            1 => format!("{} {} {} {} {}", rng.pick(&["water", "gold", "helium", "neon", "H2O", "air"]), rng.pick(&["+", "-", "*", "/"]), number(rng), rng.pick(&["kg", "mol", "m", "m^3", ""]), rng.pick(&["water", "gold", "helium", "neon", "NaCl"])),
            _ => format!("{} + {} {}", date(rng), number(rng), rng.pick(&["s", "ns", "years", "days", "m", "centuries", "ms"])),
        },
        _ => if rng.chance(1, 2) { format!("{} * -{}", expr(db, rng, d), expr(db, rng, d)) } else {
            // a boundary of a narrowing cast as exponent / shift count / root degree, on a base whose power stays small
            let b = boundary(rng);
            let base = *rng.pick(&["1", "0", "(-1)", "1 m", "0 m", "1.0", "(1|1)"]);
            match rng.below(5) { 0 => format!("{}^{}", base, b), 1 => format!("{}^-{}", base, b), 2 => format!("{}^(1|{})", base, b), 3 => format!("0 << {}", b), _ => format!("0 >> -{}", b) }
        },
    }
}

fn boundary(rng: &mut Rng) -> String {
    let p = *rng.pick(&[7u32, 8, 15, 16, 31, 32, 53, 63, 64, 127, 128]);
    let v: u128 = if p == 128 { u128::MAX } else { 1u128 << p };
    match rng.below(4) { 0 => format!("{}", v.saturating_sub(1)), 1 => format!("{}", v), 2 => format!("{}", v.saturating_add(1)), _ => format!("(2^{})", p) }
}

fn target(db: &Db, rng: &mut Rng) -> String {
    match rng.below(26) {
        0..=3 => expr(db, rng, 1),
        4 => unit(db, rng),
        5 => format!("{};{};{}", unit(db, rng), unit(db, rng), unit(db, rng)),
        6 => "hour;minute;second".into(),
        7 => if rng.chance(1, 2) { format!("digits {}", rng.pick(&["0", "1", "10", "100", "1000", "-1", "2147483647", "2147483648", "4294967296", "99999999999999999999", "x"])) } else { format!("{} {}", rng.pick(&["digits", "base"]), boundary(rng)) },
        8 => format!("digits {} {}", rng.below(50), unit(db, rng)),
        9 => format!("base {}", rng.pick(&["2", "8", "10", "16", "36", "37", "1", "0", "-2", "256", "4294967298", "x"])),
        10 => format!("base {} {}", 2 + rng.below(35), unit(db, rng)),
        11 => (*rng.pick(&["hex", "oct", "octal", "bin", "binary", "hexadecimal", "frac", "fraction", "ratio", "sci", "scientific", "eng", "engineering", "digits"])).into(),
        12 => format!("{} {}", rng.pick(&["hex", "bin", "frac", "sci", "eng"]), unit(db, rng)),
        13 => format!("\"{}\"", rng.pick(&["UTC", "US/Pacific", "Europe/Berlin", "Nowhere", "", "Asia/Tokyo"])),
        14 => format!("{}{:02}:{:02}", if rng.chance(1, 2) { "+" } else { "-" }, rng.range(0, 100), rng.range(0, 100)),
        15 => (*rng.pick(&["degC", "°F", "celsius", "kelvin", "°Ré", "degF m", "K", "°De"])).into(),
        16 => format!("{} / ({} + {})", unit(db, rng), rng.below(3), rng.below(3)),
        17 => format!("({} + {})^-1", rng.below(3), rng.below(3)),
        18 => format!("{} << {}", unit(db, rng), rng.below(5)),
        19 => format!("{} >> {}", number(rng), rng.below(5)),
        20 => if rng.chance(2, 3) { format!("{}^{}", unit(db, rng), rng.range(-3, 4)) } else { format!("{}^{}{}", rng.pick(&["m", "1", "s", "(1 m)", "2"]), rng.pick(&["", "-"]), boundary(rng)) },
        21 => "".into(),
        22 => format!("{} ->", unit(db, rng)),
        23 => format!("-{}", unit(db, rng)),
        24 => format!("{} {} {}", unit(db, rng), rng.pick(&["+", "-", "mod", "and", "=", "of"]), unit(db, rng)),
        _ => format!("{};", unit(db, rng)),
    }
}

pub fn grammar(db: &Db, rng: &mut Rng) -> String {
    match rng.below(20) {
        0..=6 => { let d = 1 + rng.below(3) as u32; expr(db, rng, d) }
        7..=12 => { let d = 1 + rng.below(2) as u32; let e = expr(db, rng, d); let arrow = *rng.pick(&["->", "→", "to", "in", "as"]); format!("{} {} {}", e, arrow, target(db, rng)) }
        13 => format!("units for {}", expr(db, rng, 1)),
        14 => format!("units of {}", unit(db, rng)),
        15 => format!("factorize {}", rng.pick(&["velocity", "force", "energy", "length", "m/s", "kg m", "1", "now", "J s", "nosuch", "W / m^2 K^4"])),
        16 => format!("search {}", rng.pick(&["meter", "mile", "", "zzzzzz", "a", "°", "日本", "water"])),
        17 => unit(db, rng),
        18 => format!("{} {}", rng.pick(&["units for", "factorize", "search", "units"]), expr(db, rng, 2)),
        _ => date(rng),
    }
}

fn soup(rng: &mut Rng) -> String {
    let n = 1 + rng.below(25);
    let mut s = String::new();
    for _ in 0..n {
        s.push_str(*rng.pick(&TOKENS[..]));
        if rng.chance(3, 4) { s.push(' '); }
    }
    s
}

fn mutate(rng: &mut Rng, seed: &str, other: &str) -> String {
    let mut cs: Vec<char> = seed.chars().collect();
    let k = 1 + rng.below(4);
    for _ in 0..k {
        let n = cs.len();
        let i = if n == 0 { 0 } else { rng.below(n as u64 + 1) as usize };
        match rng.below(9) {
            0 => { if n > 0 { cs.remove(i.min(n - 1)); } }
            1 => { let t: Vec<char> = rng.pick(&TOKENS[..]).chars().collect(); for (j, c) in t.into_iter().enumerate() { cs.insert((i + j).min(cs.len()), c); } }
            2 => { if n > 0 { let c = cs[i.min(n - 1)]; cs.insert(i.min(n - 1), c); } }
            3 => { if n > 1 { let a = i.min(n - 1); let b = rng.below(n as u64) as usize; cs.swap(a, b); } }
            4 => { cs.insert(i, *rng.pick(&['(', ')', '#', '\'', '"', '\\', '^', '|', ';', ',', '-', '>', '<', '=', '.', 'e', '_', '0', ' ', '\t', '\u{a0}', '\u{2009}', '°', '²', '\u{0}', '\u{feff}', '\u{202e}', '\u{301}'])); }
            5 => { cs.truncate(i); }
            6 => { let o: Vec<char> = other.chars().collect(); let j = if o.is_empty() { 0 } else { rng.below(o.len() as u64) as usize }; cs.truncate(i); cs.extend(o[j..].iter()); }
            7 => { if n > 0 { let a = i.min(n - 1); let b = (a + 1 + rng.below(6) as usize).min(n); let seg: Vec<char> = cs[a..b].to_vec(); let reps = 2 + rng.below(20) as usize; for _ in 0..reps { for (j, c) in seg.iter().enumerate() { cs.insert(a + j, *c); } } } }
            _ => { if n > 0 { let a = i.min(n - 1); if cs[a].is_ascii_digit() { cs[a] = *rng.pick(&['0', '9', '1']); } else { cs[a] = cs[a].to_ascii_uppercase(); } } }
        }
    }
    cs.into_iter().take(500).collect()
}

fn raw(rng: &mut Rng) -> String {
    let n = rng.below(80) as usize;
    let mut s = String::new();
    for _ in 0..n {
        let c = match rng.below(10) {
            0..=3 => char::from_u32(32 + rng.below(95) as u32).unwrap(),
            4 => char::from_u32(rng.below(32) as u32).unwrap(),
            5 => char::from_u32(0xa0 + rng.below(0x200) as u32).unwrap_or('?'),
            6 => char::from_u32(0x2000 + rng.below(0x300) as u32).unwrap_or('?'),
            7 => char::from_u32(0x1f300 + rng.below(0x300) as u32).unwrap_or('?'),
            8 => *rng.pick(&['\u{0}', '\u{7f}', '\u{85}', '\u{2028}', '\u{feff}', '\u{fffd}', '\u{10ffff}', '\u{e000}', '\u{200b}', '\u{202e}', '\u{b2}', '\u{2070}', '\u{bd}', '\u{2154}']),
            _ => char::from_u32(rng.below(0x11_0000) as u32).unwrap_or('x'),
        };
        s.push(c);
    }
    s
}

/// structured extremes: long but cheap inputs
fn extreme(rng: &mut Rng) -> String {
    match rng.below(16) {
        0 => "(".repeat(1 + rng.below(499) as usize),
        1 => { let n = 1 + rng.below(240) as usize; format!("{}1{}", "(".repeat(n), ")".repeat(n)) }
        2 => "-".repeat(1 + rng.below(499) as usize) + "1",
        3 => { let n = 1 + rng.below(120) as usize; vec!["1"; n].join(" + ") }
        4 => { let n = 1 + rng.below(120) as usize; vec!["m"; n].join(" ") }
        5 => { let n = 1 + rng.below(100) as usize; vec!["2"; n].join(" / ") }
        6 => { let n = 1 + rng.below(150) as usize; format!("1 {}", vec!["->"; n].join(" m ")) }
        7 => "9".repeat(500),
        8 => format!("0.{}", "3".repeat(490)),
        9 => { let n = 1 + rng.below(160) as usize; "sqrt(".repeat(n.min(90)) + "2" + &")".repeat(n.min(90)) }
        10 => { let n = 1 + rng.below(100) as usize; vec!["a"; n].join(" = ") }
        11 => { let n = 1 + rng.below(80) as usize; vec!["1 m"; n].join(";") + " -> m;s" }
        12 => "#".repeat(1 + rng.below(300) as usize),
        13 => { let n = 1 + rng.below(100) as usize; vec!["mass of"; n].join(" ") + " water" }
        14 => "'".repeat(1 + rng.below(300) as usize),
        _ => { let n = 1 + rng.below(60) as usize; format!("1 m -> {}", vec!["ft"; n].join(";")) }
    }
}

/// every operator, suffix and command applied to operands whose unit exponents sit at the limits of i64
/// (2^63 - 1 = 7^2 * 73 * 127 * 337 * 92737 * 649657); the units have value 1, so all of it is cheap to compute
fn exponent_edges() -> Vec<String> {
    let mut out = vec![];
    for u in ["K", "m", "s"] {
        let max = format!("((((((({u}^49)^73)^127)^337)^92737)^649657))", u = u);
        let min1 = format!("((((((({u}^49)^73)^127)^337)^92737)^-649657))", u = u);
        let half = format!("((({u}^1073741824)^1073741824)^4)", u = u);
        let nhalf = format!("((({u}^1073741824)^1073741824)^-4)", u = u);
        for x in [&max, &min1, &half, &nhalf] {
            for t in ["{x} degC", "{x} °F", "{x} delisle", "3 {x} degRe", "{x} {u}", "{x} / {u}", "{x} {u}^-1", "{x} / {u}^-1", "{x} {x}", "{x} / {x}", "{x}^2", "{x}^-1", "{x}^-2", "1 / {x}", "sqrt({x})",
                      "{x} + {x}", "{x} - {u}", "{x} mod {x}", "{x} -> {x}", "{x} -> {u}", "1 {u} -> {x}", "{x} -> degC", "{x} -> hour;min", "{x}%", "units for {x}", "factorize {x}", "mass of {x} water",
                      "{x} water", "{x} -> {x} {u}", "{x} {u} -> {x} / {u}^-1", "{x} -> 2 {x}", "now + {x}", "hypot({x}, {x})", "atan2({x}, {x})", "{x} << 1", "{x} and 1", "-{x}", "{x} -> hex", "{x} -> digits 5"] {
                out.push(t.replace("{x}", x).replace("{u}", u));
            }
        }
        out.push(format!("{} {}", half, half));
        out.push(format!("{} / {}", half, nhalf));
        out.push(format!("{} -> {} {}", max, half, half));
    }
    // names of value 1: only the powers of the printed names reach the limit
    for q in ["1 -> (one^2147483647)^2147483647 * (one^2147483647)^2147483647 * (one^4)^2147483647 * one * one", "1 -> one / ((one^-2147483647)^2147483647 * (one^-2147483647)^2147483647 * (one^-4)^2147483647 / one)",
              "1 -> (percent^2147483647)^2147483647 (percent^2147483647)^2147483647 (percent^4)^2147483647 percent percent", "1 -> ((one^1073741824)^1073741824)^4 ((one^1073741824)^1073741824)^4",
              "1 -> 1 / ((one^1073741824)^1073741824)^4 / ((one^1073741824)^1073741824)^4", "1 -> (((((((one^49)^73)^127)^337)^92737)^649657)) one", "1 -> 1 / (((((((one^49)^73)^127)^337)^92737)^649657)) / one / one"] { out.push(q.to_string()); }
    out
}

fn seeds() -> Vec<String> {
    // the suite's own query strings
    let mut out: Vec<String> = vec![];
    for f in ["/repo/core/tests/query.rs", "/repo/core/tests/token_fmt.rs", "/repo/core/tests/spans.rs", "/repo/docs/rink.7.adoc", "/repo/docs/rink-dates.5.adoc"] {
        if let Ok(t) = std::fs::read_to_string(f) {
            if f.ends_with(".rs") {
                let mut rest = &t[..];
                while let Some(a) = rest.find("(\"") {
                    let r = &rest[a + 2..];
                    if let Some(b) = r.find('"') { let q = &r[..b]; if !q.is_empty() && q.len() < 200 && !q.contains('\\') { out.push(q.to_string()); } rest = &r[b + 1..]; } else { break; }
                }
            } else {
                for l in t.lines() { if let Some(q) = l.strip_prefix("> ") { out.push(q.to_string()); } }
            }
        }
    }
    out.sort();
    out.dedup();
    for q in ["1 + 1", "3 ft to m", "10 kWh / 3 hours -> W", "#2020-01-01# - 3 days", "now -> \"US/Pacific\"", "100 degC -> degF", "density of water", "mass of 2 mol water", "2^64 -> hex", "1/3 -> digits 30",
              "pi -> frac", "1 year -> days;hours", "units for power", "factorize energy", "search horsepower", "speed of light", "5 m * 3 s^-2", "sqrt(16 m^2)", "1 ft^3 -> gallon", "12 -> base 7", "0xff and 0x0f", "7 mod 3",
              "1 << 10", "45 degrees -> radian", "5 °C", "ans + 1", "molar_mass of H2O", "volume of 1 kg gold", "1e100", "googol", "1 USD -> EUR", "mile / hour"] { out.push(q.to_string()); }
    out
}

pub fn run(o: &Opts) -> i32 {
    let db = Db::new();
    let mut rng = Rng::new(o.seed);
    let mut req = o.writer("req.txt");
    let mut aux = o.writer("aux.txt");
    let seeds = seeds();
    let nsess = if o.thorough { 4000 } else { 260 };
    let mut kinds: std::collections::BTreeMap<&str, u64> = Default::default();
    let mut classes: std::collections::BTreeMap<&str, u64> = Default::default();
    let mut lens = [0u64; 6];
    let mut samples: Vec<String> = vec![];
    let mut total = 0u64;
    // the previous answer of a session may be astronomically large once an expensive line was evaluated:
    // from then on every line that mentions it is expensive too
    let mut session_big = false;
    let mut emit = |q: &str, kind: &'static str, req: &mut dyn Write, aux: &mut dyn Write| {
        let q: String = q.chars().take(500).collect();
        if kind == "session-start" { session_big = false; return; }
        let mut class = classify(&q);
        if class == "expensive" { session_big = true; }
        else if session_big && (q.to_lowercase().contains("ans") || q.contains('_')) { class = "expensive"; }
        writeln!(req, "{}", req_line_t(&q)).unwrap();
        writeln!(aux, "{}", json!({"k": "q", "kind": kind, "class": class})).unwrap();
        *kinds.entry(kind).or_insert(0) += 1;
        *classes.entry(class).or_insert(0) += 1;
        let l = q.chars().count();
        lens[match l { 0..=9 => 0, 10..=29 => 1, 30..=79 => 2, 80..=199 => 3, 200..=399 => 4, _ => 5 }] += 1;
        total += 1;
        if samples.len() < 60 && total % 37 == 1 { samples.push(q.chars().take(120).collect()); }
    };
    // corpus: every seed once, then the regression inputs of past findings
    writeln!(req, "reset").unwrap(); writeln!(aux, "{}", json!({"k": "reset"})).unwrap();
    emit("", "session-start", &mut req, &mut aux);
    for q in &seeds { emit(q, "seed", &mut req, &mut aux); }
    writeln!(req, "reset").unwrap(); writeln!(aux, "{}", json!({"k": "reset"})).unwrap();
    emit("", "session-start", &mut req, &mut aux);
    let mut nreg = 0usize;
    for q in ["\\u", "\\u{110000}", "\\uffffffffff", "1 m -> m << 1", "1 -> 2 >> 1", "now -> +25:00", "now -> -24:00", "#2020-01-01 00:00:00.0000000000#", "#2020-01-01 00:00:00 +999999999:00#",
              "1 -> digits 2147483647", "1 -> digits 4294967296", "1 m -> m / (0 + 1)", "1 -> (0+1)^-1", "2^ln(-1)", "1 << ln(-1)", "water + gold", "mass of (water + 1 m)", "((m^2147483647)^2147483647)^3",
              "helium + 2 kg helium", "2 mol helium + 3 m neon", "water + 1", "water - gold", "water * gold", "water / gold", "2 water + 3 water", "1 kg water + 1 m^3 water", "gold + 2 mol gold -> kg",
              "now + ln(-1) s", "#2020-01-01# - ln(-1) s", "now + exp(1000) s", "now - exp(1000) s", "now + ln(0) s", "now + sqrt(2) s", "now + 1e30 years", "now - 1e-30 s", "#2020-01-01# + asin(2) hours",
              "(m^2147483647)^2147483647 * (m^2147483647)^2147483647 -> (m^2147483647)^2147483647", "(m^2147483647)^2147483647 * (m^2147483647)^2147483647", "1 / ((m^2147483647)^2147483647)^2 -> m", "(m^-2147483647)^2147483647 / (m^2147483647)^2147483647",
              "1^2147483648", "1^-2147483648", "1^2147483647", "1^-2147483647", "1 m^(2^31)", "0^2147483648", "1 << 2147483648", "1 >> 2147483648", "0 << 2147483647", "1 >> -2147483648", "2^(2^31 - 1) - 2^(2^31 - 1)",
              "1/7 -> digits 18446744073709551616", "1/7 -> digits 18446744073709551615", "1 -> base 18446744073709551616", "1½ cup -> ml", "3 m * 2²", "0.٣", "1٣", "1e٣", "٣",
              "1 m -> m^-3000000000", "1 -> 2^-2147483648", "3 s -> s^-1e400", "1 m -> m^2147483648", "1 -> 1^-2147483649", "1 m -> m^(2^31)", "1 m -> (1 m)^-2147483648",
              "exp(1000) xor 1", "1 or ln(0)", "7 and -exp(1000)", "ln(-1) and 1", "exp(1000) mod 3", "3 mod exp(1000)", "exp(1000) -> digits 5", "ln(-1) -> hex", "exp(1000) << 1", "1 << exp(1000)",
              "floor(exp(1000))", "exp(1000) - exp(1000)", "exp(1000) hours", "exp(1000) m -> ft", "ln(-1) m -> ft;inch", "1 -> exp(1000)", "1 m -> exp(1000) m", "sqrt(exp(1000))^2",
              "m^100000", "kg^99999", "1 m^65536", "(m s)^123456", "m^-100000 s^100000", "1e-2147483648", "1e2147483648", "1e-2147483649", "1.5e-2147483648", "0e-2147483648", "1e-9999999999999999999",
              "factorize (m^2147483647)^2147483647 (m^2147483647)^2147483647 (m^4)^2147483647 m", "(s^-2147483647)^2147483647 (s^-2147483647)^2147483647 (s^-4)^2147483647 s^-2",
              "1 -> 0^(-1/2)", "1 -> (10^400)^(1/2)", "1 m -> (10^400)^(1/2) m", "1 -> (-8)^(2/3)", "1 -> (10^400)^0.3", "1 -> 4^0.5", "1 m -> (4 m^2)^(1|2)", "1 -> 0^0.5", "1 -> (-1)^0.5", "1 -> 2^(1|3)^-1",
              "#-2147483647 jan 1 BC#", "#jan 1, -2147483647 BC#", "#2147483647 jan 1 BC#", "#jan 1, 2147483648 BC#", "#-1 jan 1 BC#", "#0 jan 1 BC#", "#jan 1, -0 AD#",
              "x mod 0", "1 mod 0", "0^-1", "1 << -1", "1 -> base 1", "1 -> base 37", "#01:30 Europe/London#", "1e-400 -> digits 5", "1/0", "ans", "_", "1 m -> ;", "-> m", "->", "1 ->", "", " ", "\t", "\u{0}",
              "factorize kg m^2 s^-2 A^-1 K^-1", "units for 1", "search", "5 hours -> minute;second;", "1 -> hex m", "atan2(1)", "sqrt()", "hypot(1,2,3)", "exp(1000)", "exp(1e10)", "ln(0)", "log(-1)", "asin(2)",
              "1 degC + 1 degC", "5 degC m", "degC", "°", "1 ° C", "-5 °F -> °C", "1 K -> degC", "NaN", "inf", "1e400", "1e-400", "0x", "0b2", "1__0", "1e", "1e+", "1.5.5", "1|0", "1|", "|1", "'", "''", "'a", "\"", "\"a", "#", "##", "#a"] {
        // short sessions: a worker that is killed on a time-out replays the session so far
        if nreg % 8 == 7 { writeln!(req, "reset").unwrap(); writeln!(aux, "{}", json!({"k": "reset"})).unwrap(); emit("", "session-start", &mut req, &mut aux); }
        nreg += 1;
        emit(q, "regression", &mut req, &mut aux);
    }
    // zero and near-zero values in every output mode; dates pushed past both ends of the calendar
    let mut more: Vec<String> = vec![];
    for v in ["0", "0 m", "3 - 3", "sin(0)", "0 kg m^2", "-0", "0.0", "0|5", "1e-400", "0 degC", "0 K", "1 - 1e-30"] {
        for m in ["sci", "scientific", "eng", "engineering", "frac", "fraction", "hex", "bin", "oct", "base 36", "base 2", "digits", "digits 0", "digits 5", "sci base 2", "eng hex", "frac base 2", "digits 3 sci", "m", "degC"] {
            more.push(format!("{} -> {}", v, m));
        }
    }
    // approximate numerals in every base
    for b in 2..=36 { for v in ["pi", "1/3", "2^0.5", "1/7", "-e", "1e30/7"] { more.push(format!("{} -> base {}", v, b)); } more.push(format!("pi -> base {} digits 25", b)); }
    for q in ["#262142-12-31 23:00:00 -12:00#", "#-262143-01-01 01:00:00 +12:00#", "#262142-12-31 23:59:59 -00:01#", "#-262143-01-01 00:00:00 +00:01#", "#262142-12-31 23:59:59 +14:00#", "#262143-01-01 00:00:00 +12:00#",
              "#-262144-12-31 23:00:00 -12:00#", "#262142-12-31 23:00:00 -12:00# + 1 s", "#-262143-01-01 01:00:00 +12:00# -> \"Asia/Tokyo\""] { more.push(q.to_string()); }
    for d in ["now", "#2000-01-01 00:00 Asia/Tokyo#", "#262142-12-31 23:59#", "#-262143-01-01#", "#0001-01-01#", "#9999-12-31 23:59:59#"] {
        for k in ["1 hour", "1e3 years", "1e5 years", "262000 years", "263000 years", "3e5 years", "1e6 years", "1e8 years", "2.9e8 years", "2.93e8 years", "1e9 years", "1e-9 s", "9223372036854775 s", "9223372036854776 s"] {
            more.push(format!("{} + {}", d, k)); more.push(format!("{} - {}", d, k)); more.push(format!("{} + {}", k, d));
        }
        more.push(format!("{} - {}", d, d)); more.push(format!("{} - #-262143-01-01#", d)); more.push(format!("#262142-12-31 23:59# - {}", d));
    }
    for (q, kind) in more.iter().cloned().map(|q| (q, "regression")).chain(exponent_edges().into_iter().map(|q| (q, "exponent-edge"))) {
        if nreg % 8 == 7 { writeln!(req, "reset").unwrap(); writeln!(aux, "{}", json!({"k": "reset"})).unwrap(); emit("", "session-start", &mut req, &mut aux); }
        nreg += 1;
        emit(&q, kind, &mut req, &mut aux);
    }
    for _ in 0..nsess {
        writeln!(req, "reset").unwrap(); writeln!(aux, "{}", json!({"k": "reset"})).unwrap();
        emit("", "session-start", &mut req, &mut aux);
        let len = 10 + rng.below(40);
        for _ in 0..len {
            match rng.below(20) {
                0..=7 => { let q = grammar(&db, &mut rng); emit(&q, "grammar", &mut req, &mut aux); }
                8..=10 => { let q = soup(&mut rng); emit(&q, "soup", &mut req, &mut aux); }
                11..=15 => { let a = rng.pick(&seeds).clone(); let b = rng.pick(&seeds).clone(); let q = mutate(&mut rng, &a, &b); emit(&q, "mutation", &mut req, &mut aux); }
                16 => { let a = grammar(&db, &mut rng); let b = grammar(&db, &mut rng); let q = mutate(&mut rng, &a, &b); emit(&q, "mutation", &mut req, &mut aux); }
                17 => { let q = raw(&mut rng); emit(&q, "raw", &mut req, &mut aux); }
                18 => { let q = extreme(&mut rng); emit(&q, "extreme", &mut req, &mut aux); }
                _ => { let q = (*rng.pick(&["ans", "ans + 1", "_ * 2", "ans -> hex", "ans m", "ans -> ans", "1 / ans", "ans mod 7", "-ans"])).to_string(); emit(&q, "history", &mut req, &mut aux); }
            }
        }
    }
    drop(emit);
    req.flush().unwrap();
    aux.flush().unwrap();
    crate::util::write_json(&format!("{}/stats.json", o.out), &json!({
        "total": total, "sessions": nsess + 2, "seed_corpus": seeds.len(), "by_kind": kinds, "by_class": classes,
        "length_histogram": {"0-9": lens[0], "10-29": lens[1], "30-79": lens[2], "80-199": lens[3], "200-399": lens[4], "400-500": lens[5]},
        "samples": samples,
    }));
    0
}
