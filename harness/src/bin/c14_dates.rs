//! C14 — date arithmetic: correspondence stream + model-independent property oracle.
//!
//! Generates date literals in every pattern of `core/datepatterns.txt`, durations in every time
//! unit, and the query forms `#d# + t`, `#d# - t`, `(#d# + t) - #d#`, `#d# - t + t`, `#d# + t - t`,
//! `#d1# - #d2#`, `#d# -> +HH:MM`, `#d# -> "Zone/Name"`; evaluates each on the real code in-process
//! under `catch_unwind` and writes
//!   req.txt      request lines for `rinkmodel dates` (see lean/Rink/Driver/Dates.lean)
//!   impl.txt     the implementation's canonical answers (`date <ns> <off|zone>`, `dur n/d`,
//!                `ns <int>`, `err`, `panic`, …), aligned with req.txt
//!   oracle.jsonl property violations found on the implementation, judged by an independent
//!                calendar (Hinnant's days-from-civil), exact rational arithmetic and chrono-tz
//!                for zone offsets — never by the Lean model
//!   stats.json   counts and samples
//! Other modes: `--query TEXT [--tz NAME]` prints the canonical answer of one query (replay).
#[path = "../util.rs"]
mod util;
#[path = "../evalsess.rs"]
mod evalsess;

use chrono::{LocalResult, NaiveDate, Offset, TimeZone};
use chrono_tz::Tz;
use num_bigint::BigInt;
use num_rational::BigRational;
use num_traits::{One, Signed, ToPrimitive, Zero};
use rink_core::output::{DateReply, QueryError, QueryReply};
use rink_core::types::{BaseUnit, Dimensionality, Number, Numeric};
use rink_core::Context;
use serde_json::json;
use std::io::Write;
use std::str::FromStr;
use util::{hex, Opts, Rng};

type R = BigRational;

const NOW: i64 = 1_700_000_000; // evalsess::new_context pins the clock here (2023-11-14T22:13:20Z)
const NS: i128 = 1_000_000_000;
const MAX_SECS: i64 = 9_223_372_036_854_775; // i64::MAX / 1000, the documented maximum

// ------------------------------------------------------------------ independent calendar
fn days_from_civil(y: i64, m: i64, d: i64) -> i64 {
    let y = if m <= 2 { y - 1 } else { y };
    let era = y.div_euclid(400);
    let yoe = y.rem_euclid(400);
    let mp = (m + 9) % 12;
    let doy = (153 * mp + 2) / 5 + d - 1;
    let doe = yoe * 365 + yoe / 4 - yoe / 100 + doy;
    era * 146_097 + doe - 719_468
}

fn civil_from_days(z: i64) -> (i64, i64, i64) {
    let z = z + 719_468;
    let era = z.div_euclid(146_097);
    let doe = z.rem_euclid(146_097);
    let yoe = (doe - doe / 1460 + doe / 36_524 - doe / 146_096) / 365;
    let y = yoe + era * 400;
    let doy = doe - (365 * yoe + yoe / 4 - yoe / 100);
    let mp = (5 * doy + 2) / 153;
    let d = doy - (153 * mp + 2) / 5 + 1;
    let m = if mp < 10 { mp + 3 } else { mp - 9 };
    (if m <= 2 { y + 1 } else { y }, m, d)
}

fn is_leap(y: i64) -> bool { y.rem_euclid(4) == 0 && (y.rem_euclid(100) != 0 || y.rem_euclid(400) == 0) }
fn month_len(y: i64, m: i64) -> i64 {
    match m { 2 => if is_leap(y) { 29 } else { 28 }, 4 | 6 | 9 | 11 => 30, _ => 31 }
}
fn year_len(y: i64) -> i64 { if is_leap(y) { 366 } else { 365 } }
/// chrono's datetime range, as UTC nanoseconds
fn min_ns() -> i128 { days_from_civil(-262_143, 1, 1) as i128 * 86_400 * NS }
fn max_ns() -> i128 { (days_from_civil(262_142, 12, 31) as i128 + 1) * 86_400 * NS - 1 }

// ------------------------------------------------------------------ literals
#[derive(Clone, Debug)]
enum Zs { None, Fixed { neg: bool, h: String, m: Option<String> }, Named(Tz) }
#[derive(Clone, Debug, PartialEq)]
enum Dk { Ymd, Ordinal, Ctime, Today, Unusable }
#[derive(Clone, Debug)]
struct Tm { h: i64, mi: i64, sec: Option<(String, Option<String>)> }
#[derive(Clone, Debug)]
struct Lit { dk: Dk, y: i64, m: i64, d: i64, ord: i64, wd: i64, time: Option<Tm>, zone: Zs, text: String, no_model: bool }

#[derive(Clone, Debug, PartialEq)]
enum ZoneOut { Fixed(i64), Named(Tz) }
#[derive(Clone, Debug, PartialEq)]
enum Want { Inst(i128, ZoneOut), Refuse(&'static str), NoExpect }

fn all_digits(s: &str) -> bool { !s.is_empty() && s.bytes().all(|b| b.is_ascii_digit()) }

/// `LocalResult` of a local wall-clock time in a named zone, as offsets in seconds
#[derive(Clone, Debug, PartialEq)]
enum Loc { Single(i64), Ambiguous(i64, i64), Gap }
fn local_in(tz: Tz, days: i64, sod: i64) -> Option<Loc> {
    let (y, m, d) = civil_from_days(days);
    let nd = NaiveDate::from_ymd_opt(y as i32, m as u32, d as u32)?;
    let ndt = nd.and_hms_opt((sod / 3600) as u32, (sod / 60 % 60) as u32, (sod % 60) as u32)?;
    Some(match tz.offset_from_local_datetime(&ndt) {
        LocalResult::Single(o) => Loc::Single(o.fix().local_minus_utc() as i64),
        LocalResult::Ambiguous(a, b) => Loc::Ambiguous(a.fix().local_minus_utc() as i64, b.fix().local_minus_utc() as i64),
        LocalResult::None => Loc::Gap,
    })
}
fn offset_at(tz: Tz, utc_secs: i64) -> i64 {
    let days = utc_secs.div_euclid(86_400);
    let sod = utc_secs.rem_euclid(86_400);
    let (y, m, d) = civil_from_days(days);
    match NaiveDate::from_ymd_opt(y as i32, m as u32, d as u32).and_then(|nd| nd.and_hms_opt((sod / 3600) as u32, (sod / 60 % 60) as u32, (sod % 60) as u32)) {
        Some(ndt) => tz.offset_from_utc_datetime(&ndt).fix().local_minus_utc() as i64,
        None => 0,
    }
}

impl Lit {
    /// seconds token -> (second, nanosecond) per the documentation: two digits, up to nine fraction digits
    fn sec_value(&self) -> Result<(i64, i64), &'static str> {
        match self.time.as_ref().and_then(|t| t.sec.as_ref()) {
            None => Ok((0, 0)),
            Some((ss, None)) => if ss.len() == 2 && all_digits(ss) { Ok((ss.parse().unwrap(), 0)) } else { Err("malformed") },
            Some((ss, Some(f))) => {
                if ss.len() != 2 || !all_digits(ss) || !all_digits(f) { return Err("malformed"); }
                if f.len() > 9 { return Err("fraction-too-long"); }
                let mut n: i64 = f.parse().unwrap();
                for _ in f.len()..9 { n *= 10; }
                Ok((ss.parse().unwrap(), n))
            }
        }
    }

    /// What the literal denotes, by the documentation of the patterns and the proleptic Gregorian
    /// calendar; `Refuse` = it denotes nothing and must be answered with an error.
    fn want(&self, now: i64) -> Want {
        // zone
        let fixed_off: Option<i64> = match &self.zone {
            Zs::None => Some(0),
            Zs::Named(_) => None,
            Zs::Fixed { neg, h, m } => {
                if !all_digits(h) { return Want::Refuse("malformed"); }
                let (hh, mm): (i128, i128) = match m {
                    None => { if h.len() != 4 { return Want::Refuse("malformed"); } let v: i128 = h.parse().unwrap(); (v / 100, v % 100) }
                    Some(m) => {
                        if m.len() != 2 || !all_digits(m) { return Want::Refuse("malformed"); }
                        if h.len() > 30 { return Want::Refuse("offset-out-of-range"); }
                        (h.parse().unwrap(), m.parse().unwrap())
                    }
                };
                let off = hh * 3600 + mm * 60;
                if off >= 86_400 { return Want::Refuse("offset-out-of-range"); }
                if mm > 59 { return Want::Refuse("malformed"); }
                Some(if *neg { -(off as i64) } else { off as i64 })
            }
        };
        // time
        let tod: Option<(i64, i64)> = match &self.time {
            None => None,
            Some(t) => {
                let (s, ns) = match self.sec_value() { Ok(x) => x, Err(e) => return Want::Refuse(e) };
                if t.h < 0 || t.h > 23 || t.mi < 0 || t.mi > 60 { return Want::Refuse("malformed"); }
                if s > 60 && t.sec.as_ref().map(|x| x.1.is_none()).unwrap_or(false) { return Want::Refuse("malformed"); }
                if t.mi > 59 || s > 60 { return Want::Refuse("impossible-time"); }
                if s == 60 { return Want::NoExpect; }
                Some((t.h * 3600 + t.mi * 60 + s, ns))
            }
        };
        // date
        let days: Option<i64> = match self.dk {
            Dk::Today => None,
            Dk::Unusable => return Want::Refuse("unusable-date-fields"),
            Dk::Ymd | Dk::Ctime => {
                if self.m < 1 || self.m > 12 || self.d < 1 || self.d > 31 { return Want::Refuse("malformed"); }
                if self.d > month_len(self.y, self.m) || self.y.abs() > 262_142 { return Want::Refuse("impossible-date"); }
                let days = days_from_civil(self.y, self.m, self.d);
                if self.dk == Dk::Ctime && (days + 3).rem_euclid(7) != self.wd { return Want::Refuse("impossible-date"); }
                Some(days)
            }
            Dk::Ordinal => {
                if self.ord < 1 || self.ord > 366 { return Want::Refuse("malformed"); }
                if self.ord > year_len(self.y) || self.y.abs() > 262_142 { return Want::Refuse("impossible-date"); }
                Some(days_from_civil(self.y, 1, 1) + self.ord - 1)
            }
        };
        let (days, sod, ns) = match (days, tod) {
            (Some(d), Some((sod, ns))) => (d, sod, ns),
            (Some(d), None) => (d, 0, 0),
            (None, Some((sod, ns))) => {
                let off_now = match &self.zone { Zs::Named(tz) => offset_at(*tz, now), _ => fixed_off.unwrap() };
                ((now + off_now).div_euclid(86_400), sod, ns)
            }
            (None, None) => return Want::Refuse("malformed"),
        };
        let (off, zone) = match &self.zone {
            Zs::Named(tz) => match local_in(*tz, days, sod) {
                Some(Loc::Single(o)) | Some(Loc::Ambiguous(o, _)) => (o, ZoneOut::Named(*tz)),
                Some(Loc::Gap) => return Want::Refuse("nonexistent-local-time"),
                None => return Want::NoExpect,
            },
            _ => (fixed_off.unwrap(), ZoneOut::Fixed(fixed_off.unwrap())),
        };
        let n = (days as i128 * 86_400 + sod as i128 - off as i128) * NS + ns as i128;
        if n < min_ns() || n > max_ns() { return Want::Refuse("out-of-range"); }
        Want::Inst(n, zone)
    }

    /// the three tokens of the Lean request; `None` when the model's inputs cannot be computed
    fn lean(&self, now: i64) -> Option<String> {
        if self.no_model { return None; }
        let date = match self.dk {
            Dk::Ymd => format!("ymd:{}:{}:{}", self.y, self.m, self.d),
            Dk::Ctime => format!("ymdw:{}:{}:{}:{}", self.y, self.m, self.d, self.wd),
            Dk::Ordinal => format!("yo:{}:{}", self.y, self.ord),
            Dk::Today => "nodate".into(),
            Dk::Unusable => "unusable".into(),
        };
        let time = match &self.time {
            None => "notime".into(),
            Some(t) => format!("hm:{}:{}:{}", t.h, t.mi, match &t.sec { None => "-".to_string(), Some((s, None)) => s.clone(), Some((s, Some(f))) => format!("{}.{}", s, f) }),
        };
        let zone = match &self.zone {
            Zs::None => "z0".into(),
            Zs::Fixed { neg, h, m } => format!("zf:{}:{}:{}", if *neg { "-" } else { "+" }, h, m.clone().unwrap_or_else(|| "-".into())),
            Zs::Named(tz) => {
                // the local time the code will look up: date (or today in that zone) and time of day
                let off_now = offset_at(*tz, now);
                let t = self.time.as_ref()?;
                let (s, _) = self.sec_value().ok()?;
                if t.h > 23 || t.mi > 59 || s > 59 { return None; }
                let days = match self.dk {
                    Dk::Today => (now + off_now).div_euclid(86_400),
                    Dk::Ymd | Dk::Ctime => { if self.m < 1 || self.m > 12 || self.d < 1 || self.d > month_len(self.y, self.m) { return None; } days_from_civil(self.y, self.m, self.d) }
                    Dk::Ordinal => { if self.ord < 1 || self.ord > year_len(self.y) { return None; } days_from_civil(self.y, 1, 1) + self.ord - 1 }
                    Dk::Unusable => return None,
                };
                let loc = match local_in(*tz, days, t.h * 3600 + t.mi * 60 + s)? { Loc::Single(o) => format!("s,{}", o), Loc::Ambiguous(a, b) => format!("a,{},{}", a, b), Loc::Gap => "g".into() };
                format!("zn:{}:{}:{}", hex(tz.name()), off_now, loc)
            }
        };
        Some(format!("{} {} {}", date, time, zone))
    }
    fn named(&self) -> Option<Tz> { if let Zs::Named(tz) = &self.zone { Some(*tz) } else { None } }
}

const MONTHS: [&str; 12] = ["January", "February", "March", "April", "May", "June", "July", "August", "September", "October", "November", "December"];
const WEEKDAYS: [&str; 7] = ["Monday", "Tuesday", "Wednesday", "Thursday", "Friday", "Saturday", "Sunday"];

fn vary_case(rng: &mut Rng, s: &str) -> String {
    match rng.below(4) { 0 => s.to_lowercase(), 1 => s.to_uppercase(), _ => s.to_string() }
}
fn month_text(rng: &mut Rng, m: i64) -> String {
    let full = MONTHS[(m - 1).clamp(0, 11) as usize];
    let s = if rng.chance(1, 2) { full.to_string() } else { full[..3].to_string() };
    vary_case(rng, &s)
}
fn weekday_text(rng: &mut Rng, wd: i64) -> String {
    let full = WEEKDAYS[wd.rem_euclid(7) as usize];
    let s = if rng.chance(1, 2) { full.to_string() } else { full[..3].to_string() };
    vary_case(rng, &s)
}
fn year_text(rng: &mut Rng, y: i64) -> String {
    if y < 0 { format!("-{:04}", -y) } else if y > 9999 { if rng.chance(1, 2) { format!("+{}", y) } else { format!("{}", y) } }
    else if rng.chance(1, 6) { format!("{}", y) } else { format!("{:04}", y) }
}

/// renders the literal in one of the documented patterns that can express its components
fn render(rng: &mut Rng, l: &mut Lit) {
    let zone = |z: &Zs| -> String {
        match z { Zs::None => String::new(), Zs::Fixed { neg, h, m } => format!(" {}{}{}", if *neg { "-" } else { "+" }, h, m.as_ref().map(|m| format!(":{}", m)).unwrap_or_default()), Zs::Named(tz) => format!(" {}", tz.name()) }
    };
    let sec = |t: &Tm| -> String { match &t.sec { None => String::new(), Some((s, None)) => format!(":{}", s), Some((s, Some(f))) => format!(":{}.{}", s, f) } };
    let t24 = |t: &Tm, z: &Zs| -> String { format!("{:02}:{:02}{}{}", t.h, t.mi, sec(t), zone(z)) };
    let t12 = |rng: &mut Rng, t: &Tm, z: &Zs| -> String {
        let h12 = if t.h % 12 == 0 { 12 } else { t.h % 12 };
        let mer = vary_case(rng, if t.h >= 12 { "pm" } else { "am" });
        format!("{:02}:{:02}{} {}{}", h12, t.mi, sec(t), mer, zone(z))
    };
    let valid_hour = l.time.as_ref().map(|t| (0..24).contains(&t.h)).unwrap_or(true);
    l.text = match l.dk {
        Dk::Today => {
            let t = l.time.as_ref().unwrap();
            if valid_hour && rng.chance(1, 3) { t12(rng, t, &l.zone) } else { t24(t, &l.zone) }
        }
        Dk::Ordinal => {
            let mut s = format!("{}-{:03}", year_text(rng, l.y), l.ord);
            if let Some(t) = &l.time { s.push(' '); s.push_str(&t24(t, &l.zone)); }
            s
        }
        Dk::Ctime => {
            let mut s = format!("{} {} {}", weekday_text(rng, l.wd), month_text(rng, l.m), if rng.chance(1, 2) { format!("{}", l.d) } else { format!("{:02}", l.d) });
            if let Some(t) = &l.time { s.push(' '); s.push_str(&t24(t, &Zs::None)); }
            s.push_str(&format!(" {:04}", l.y));
            s
        }
        Dk::Unusable => l.text.clone(),
        Dk::Ymd => {
            // a year below 1 is written with `bc` in the month-name patterns
            // a month number outside 1..12 can only be written in the numeric patterns
            let pat = if l.m < 1 || l.m > 12 { rng.below(2) } else { rng.below(if l.y < 1 || l.y > 9999 { 3 } else { 4 }) };
            match pat {
                0 | 1 => {
                    let mut s = format!("{}-{:02}-{:02}", year_text(rng, l.y), l.m, l.d);
                    if let Some(t) = &l.time { s.push(if pat == 0 { 'T' } else { ' ' }); s.push_str(&t24(t, &l.zone)); }
                    s
                }
                _ => {
                    let coin = rng.chance(1, 2);
                    let (ytxt, suffix) = if l.y < 1 { (format!("{}", 1 - l.y), vary_case(rng, if coin { " bc" } else { " bce" })) }
                        else if rng.chance(1, 8) { (format!("{}", l.y), vary_case(rng, if coin { " ad" } else { " ce" })) }
                        else { (if rng.chance(1, 4) { format!("{}", l.y) } else { format!("{:04}", l.y) }, String::new()) };
                    let day = if rng.chance(1, 2) { format!("{}", l.d) } else { format!("{:02}", l.d) };
                    let mut s = if pat == 2 { format!("{} {}{} {}", month_text(rng, l.m), day, if rng.chance(1, 2) { "," } else { "" }, ytxt) } else { format!("{} {} {}", ytxt, month_text(rng, l.m), day) };
                    if let Some(t) = &l.time {
                        s.push(' ');
                        if valid_hour && rng.chance(1, 2) { s.push_str(&t12(rng, t, &l.zone)) } else { s.push_str(&t24(t, &l.zone)) }
                    }
                    s.push_str(&suffix);
                    s
                }
            }
        }
    };
}

const YEARS: [i64; 30] = [1, 2, 4, 99, 100, 101, 400, 1000, 1582, 1600, 1700, 1800, 1899, 1900, 1901, 1969, 1970, 1971, 1999, 2000, 2001, 2019, 2020, 2023, 2024, 2038, 2100, 2400, 9998, 9999];
const ZONES: [&str; 28] = ["UTC", "Europe/London", "Europe/Amsterdam", "Europe/Berlin", "Europe/Moscow", "America/New_York", "America/Los_Angeles", "America/Sao_Paulo", "America/St_Johns",
    "Asia/Tokyo", "Asia/Kolkata", "Asia/Kathmandu", "Asia/Tehran", "Australia/Sydney", "Australia/Lord_Howe", "Australia/Adelaide", "Pacific/Auckland", "Pacific/Chatham", "Pacific/Apia", "Pacific/Kiritimati",
    "Africa/Cairo", "Africa/Johannesburg", "US/Pacific", "Japan", "Iceland", "Zulu", "Atlantic/Azores", "Antarctica/Troll"];

fn lexable_zone(name: &str) -> bool { !name.is_empty() && !name.chars().any(|c| "#:-+ ".contains(c) || c.is_ascii_digit()) && name != "GB" }

fn gen_frac(rng: &mut Rng) -> Option<String> {
    match rng.below(10) {
        0 | 1 | 2 => None,
        3 => Some("000000001".into()),
        4 => Some("999999999".into()),
        5 => Some("5".into()),
        _ => { let n = 1 + rng.below(9) as usize; Some((0..n).map(|_| char::from(b'0' + rng.below(10) as u8)).collect()) }
    }
}
fn gen_zone(rng: &mut Rng, zones: &[Tz]) -> Zs {
    match rng.below(10) {
        0 | 1 | 2 => Zs::None,
        3 | 4 | 5 | 6 => {
            let (h, m) = match rng.below(8) { 0 => (0, 0), 1 => (23, 59), 2 => (12, 0), 3 => (14, 0), 4 => (5, 45), _ => (rng.below(24) as i64, rng.below(60) as i64) };
            let neg = rng.chance(1, 2);
            match rng.below(4) {
                0 => Zs::Fixed { neg, h: format!("{:02}{:02}", h, m), m: None },
                1 => Zs::Fixed { neg, h: format!("{}", h), m: Some(format!("{:02}", m)) },
                _ => Zs::Fixed { neg, h: format!("{:02}", h), m: Some(format!("{:02}", m)) },
            }
        }
        _ => Zs::Named(*rng.pick(zones)),
    }
}
fn gen_time(rng: &mut Rng) -> Tm {
    let (h, mi) = match rng.below(6) { 0 => (0, 0), 1 => (23, 59), 2 => (12, 0), 3 => (11, 59), _ => (rng.below(24) as i64, rng.below(60) as i64) };
    let sec = if rng.chance(1, 4) { None } else {
        let s = match rng.below(5) { 0 => 0, 1 => 59, _ => rng.below(60) };
        Some((format!("{:02}", s), gen_frac(rng)))
    };
    Tm { h, mi, sec }
}
fn gen_ymd(rng: &mut Rng) -> (i64, i64, i64) {
    // the property's domain is 0001-9999; a twentieth of the literals lies outside it (BC, five-digit years)
    let y = if rng.chance(1, 20) { *rng.pick(&[0i64, -1, -43, -400, -4712, 10_000, 12_345, 99_999, 262_142]) } else if rng.chance(1, 2) { *rng.pick(&YEARS) } else { rng.range(1, 9999) };
    let m = match rng.below(5) { 0 => 2, 1 => 12, 2 => 1, _ => rng.range(1, 12) };
    let d = match rng.below(4) { 0 => 1, 1 => month_len(y, m), 2 => (month_len(y, m) - 1).max(1), _ => rng.range(1, month_len(y, m)) };
    (y, m, d)
}

/// a well-formed literal with valid fields in a random pattern
fn gen_valid(rng: &mut Rng, zones: &[Tz]) -> Lit {
    let (y, m, d) = gen_ymd(rng);
    let days = days_from_civil(y, m, d);
    let dk = match rng.below(12) { 0 | 1 => Dk::Ordinal, 2 if (0..=9999).contains(&y) => Dk::Ctime, 3 => Dk::Today, _ => Dk::Ymd };
    let mut time = if dk == Dk::Today || rng.chance(3, 4) { Some(gen_time(rng)) } else { None };
    let mut zone = if time.is_some() && dk != Dk::Ctime { gen_zone(rng, zones) } else { Zs::None };
    if let (Zs::Named(_), Some(t)) = (&zone, time.as_mut()) {
        // seconds below 60 always; keep as generated
        let _ = t;
    }
    if dk == Dk::Ctime { zone = Zs::None; }
    if time.is_none() { zone = Zs::None; }
    let mut l = Lit { dk, y, m, d, ord: days - days_from_civil(y, 1, 1) + 1, wd: (days + 3).rem_euclid(7), time: time.take(), zone, text: String::new(), no_model: false };
    render(rng, &mut l);
    l
}

/// literals that spell something impossible, unusable or malformed; every one has a valid twin
fn gen_invalid(rng: &mut Rng, zones: &[Tz]) -> Lit {
    loop {
        let mut l = gen_valid(rng, zones);
        if l.named().is_some() { l.zone = Zs::None; }
        match rng.below(14) {
            0 => { if l.dk == Dk::Ymd || l.dk == Dk::Ctime { let ml = month_len(l.y, l.m); if ml < 31 { l.d = rng.range(ml + 1, 31); } else { continue; } } else { continue; } }
            1 => { if l.dk == Dk::Ordinal && !is_leap(l.y) { l.ord = 366; } else { continue; } }
            2 => { if l.dk == Dk::Ctime { l.wd = (l.wd + 1 + rng.below(6) as i64) % 7; } else { continue; } }
            3 => { if let Some(t) = l.time.as_mut() { t.mi = 60; } else { continue; } }
            4 => { if let Some(t) = l.time.as_mut() { t.sec = Some((format!("{}", rng.range(61, 99)), Some("5".into()))); } else { continue; } }
            5 => { if let Some(t) = l.time.as_mut() { t.sec = Some((format!("{}", rng.range(61, 99)), None)); } else { continue; } }
            6 => { if l.dk == Dk::Ymd { l.m = if rng.chance(1, 2) { 13 } else { 0 }; l.text.clear(); } else { continue; } }
            7 => { if l.dk == Dk::Ymd { l.d = if rng.chance(1, 2) { 32 } else { 0 }; } else { continue; } }
            8 => { if let Some(t) = l.time.as_mut() { t.h = 24; } else { continue; } }
            9 => { if l.time.is_some() && l.dk != Dk::Ctime {
                    let neg = rng.chance(1, 2);
                    l.zone = match rng.below(5) { 0 => Zs::Fixed { neg, h: "24".into(), m: Some("00".into()) }, 1 => Zs::Fixed { neg, h: "2400".into(), m: None }, 2 => Zs::Fixed { neg, h: "9999".into(), m: None },
                        3 => Zs::Fixed { neg, h: format!("{}", rng.range(24, 99)), m: Some(format!("{:02}", rng.below(60))) }, _ => Zs::Fixed { neg, h: format!("{}", rng.range(100, 596_523)), m: Some("00".into()) } };
                } else { continue; } }
            10 => { if let Some(t) = l.time.as_mut() { let n = 10 + rng.below(3) as usize; t.sec = Some(("00".into(), Some((0..n).map(|i| if i + 1 == n { '1' } else { '0' }).collect()))); } else { continue; } }
            11 => { if l.time.is_some() && l.dk != Dk::Ctime { l.zone = Zs::Fixed { neg: rng.chance(1, 2), h: format!("{}", rng.range(596_524, 999_999_999)), m: Some("00".into()) }; } else { continue; } }
            12 => { if let Some(t) = l.time.as_mut() { t.sec = Some(("60".into(), if rng.chance(1, 2) { None } else { Some("5".into()) })); } else { continue; } }
            _ => {
                // date fields from which no date can be built: ISO week, month and day without a year
                let t = l.time.clone();
                let tt = t.as_ref().map(|t| format!(" {:02}:{:02}", t.h, t.mi)).unwrap_or_default();
                let form = rng.below(3);
                let body = match form { 0 => format!("{:04}-W{:02}", l.y, rng.range(1, 52)), 1 => format!("--{:02}-{:02}", l.m, l.d), _ => format!("{} {}", MONTHS[(l.m - 1) as usize], l.d) };
                // `Month D HH:MM` reads HH as the year and fails at `:` — refused already, but not by the modelled path
                l.no_model = form == 2 && t.is_some();
                l.dk = Dk::Unusable; l.zone = Zs::None;
                if let Some(t) = l.time.as_mut() { t.sec = None; }
                l.text = format!("{}{}", body, tt);
                return l;
            }
        }
        render(rng, &mut l);
        return l;
    }
}

// ------------------------------------------------------------------ durations
#[derive(Clone, Debug)]
struct Dur { text: String, t: R }

fn rat(n: i128, d: i128) -> R { R::new(BigInt::from(n), BigInt::from(d)) }
fn fmt_r(r: &R) -> String { format!("{}/{}", r.numer(), r.denom()) }
fn pow10(k: u32) -> BigInt { BigInt::from(10u8).pow(k) }

/// decimal rendering if it terminates within 30 digits, else `p|q`
fn coef_text(rng: &mut Rng, c: &R) -> String {
    let c = c.abs();
    let mut den = c.denom().clone();
    let (mut twos, mut fives) = (0u32, 0u32);
    while (&den % BigInt::from(2u8)).is_zero() { den /= 2; twos += 1; }
    while (&den % BigInt::from(5u8)).is_zero() { den /= 5; fives += 1; }
    let k = twos.max(fives);
    if den.is_one() && k <= 30 && !rng.chance(1, 6) {
        let scaled = (c.numer() * pow10(k)) / c.denom();
        let s = scaled.to_string();
        if k == 0 { return s; }
        let k = k as usize;
        let s = if s.len() <= k { format!("{}{}", "0".repeat(k + 1 - s.len()), s) } else { s };
        let (a, b) = s.split_at(s.len() - k);
        return format!("{}.{}", a, b);
    }
    if c.denom().is_one() { c.numer().to_string() } else { format!("{}|{}", c.numer(), c.denom()) }
}

fn whole_ns(t: &R) -> bool { (t * R::from_integer(BigInt::from(NS))).is_integer() }
/// truncation toward zero to whole nanoseconds
fn trunc_ns(t: &R) -> BigInt { (t * R::from_integer(BigInt::from(NS))).trunc().to_integer() }

struct Units { list: Vec<(String, R)> }
impl Units {
    fn load(ctx: &Context) -> Units {
        let secs = Dimensionality::base_unit(BaseUnit::new("s"));
        let mut list = vec![];
        for name in ["ns", "nanosecond", "nanoseconds", "us", "µs", "microsecond", "microseconds", "ms", "millisecond", "milliseconds", "s", "sec", "second", "seconds",
            "min", "minute", "minutes", "hr", "hour", "hours", "day", "days", "week", "weeks", "fortnight", "year", "years", "decade", "century", "ks", "Ms"] {
            if let Some(n) = ctx.lookup(name) {
                if n.unit == secs { if let Numeric::Rational(_) = n.value { let (a, b) = n.value.to_rational(); list.push((name.to_string(), R::new(BigInt::from_str(&a.to_string()).unwrap(), BigInt::from_str(&b.to_string()).unwrap()))); } }
            }
        }
        Units { list }
    }
}

/// a duration of exactly `k` nanoseconds (k > 0), written in a random unit
fn dur_of_ns(rng: &mut Rng, units: &Units, k: &BigInt) -> Dur {
    let t = R::new(k.clone(), BigInt::from(NS));
    let (name, val) = rng.pick(&units.list).clone();
    let c = &t / &val;
    Dur { text: format!("{} {}", coef_text(rng, &c), name), t }
}
/// a decimal or fractional coefficient times a unit; not necessarily whole nanoseconds
fn dur_free(rng: &mut Rng, units: &Units) -> Dur {
    let (name, val) = rng.pick(&units.list).clone();
    let c = match rng.below(4) {
        0 => rat(1 + rng.below(999) as i128, 1),
        1 => rat(1 + rng.below(99_999) as i128, 10i128.pow(rng.below(7) as u32)),
        2 => rat(1 + rng.below(999) as i128, 1 + rng.below(999) as i128),
        _ => rat(1 + rng.below(9) as i128, 3),
    };
    Dur { text: format!("{} {}", coef_text(rng, &c), name), t: &c * &val }
}
fn gen_ns(rng: &mut Rng) -> BigInt {
    let max_ns = BigInt::from(MAX_SECS) * BigInt::from(NS);
    match rng.below(12) {
        0 => BigInt::from(*rng.pick(&[1i64, 2, 999, 1000, 1001, 999_999, 1_000_000, 1_000_001, 999_999_999, 1_000_000_000, 1_000_000_001, 1_500_000, 500_000, 86_400_000_000_001])),
        1 => BigInt::from(1 + rng.below(999_999)),                              // below a millisecond
        2 => BigInt::from(rng.below(1_000_000_000) * 1_000_000),               // whole milliseconds
        3 => BigInt::from(rng.next() >> rng.below(60)),
        4 => &max_ns - BigInt::from(rng.below(3_000_000)),                     // at the documented maximum
        5 => { let years = 1 + rng.below(262_000); BigInt::from(years) * BigInt::from(31_556_952u64) * BigInt::from(NS) + BigInt::from(rng.below(1_000_000_000)) }
        6 => { let e = rng.below(25) as u32; pow10(e) * BigInt::from(1 + rng.below(9)) + BigInt::from(rng.below(1000)) }
        _ => { let e = rng.below(19) as u32; BigInt::from(1 + rng.below(999_999_999)) * pow10(e) / pow10(rng.below(e as u64 + 1) as u32) + BigInt::from(1u8) }
    }
}

// ------------------------------------------------------------------ canonical answers
fn rfc_parse(s: &str) -> Option<(i64, i64, i64, i64, i64, i64, i64, i64)> {
    // [+-]Y…-MM-DDTHH:MM:SS[.f…](Z|+HH:MM|-HH:MM)
    let (sign, rest) = if let Some(r) = s.strip_prefix('-') { (-1, r) } else if let Some(r) = s.strip_prefix('+') { (1, r) } else { (1, s) };
    let tpos = rest.find('T')?;
    let (date, time) = rest.split_at(tpos);
    let time = &time[1..];
    let mut dp = date.split('-');
    let y: i64 = dp.next()?.parse().ok()?;
    let m: i64 = dp.next()?.parse().ok()?;
    let d: i64 = dp.next()?.parse().ok()?;
    let (clock, off) = if let Some(c) = time.strip_suffix('Z') { (c, 0) } else {
        let p = time.rfind(|c| c == '+' || c == '-')?;
        let (c, o) = time.split_at(p);
        let sg = if o.starts_with('-') { -1 } else { 1 };
        let mut op = o[1..].split(':');
        let oh: i64 = op.next()?.parse().ok()?;
        let om: i64 = op.next()?.parse().ok()?;
        (c, sg * (oh * 3600 + om * 60))
    };
    let (hms, frac) = match clock.split_once('.') { Some((a, f)) => (a, f), None => (clock, "") };
    let mut hp = hms.split(':');
    let h: i64 = hp.next()?.parse().ok()?;
    let mi: i64 = hp.next()?.parse().ok()?;
    let sec: i64 = hp.next()?.parse().ok()?;
    let mut ns: i64 = 0;
    if !frac.is_empty() { if frac.len() > 9 || !all_digits(frac) { return None; } ns = frac.parse().ok()?; for _ in frac.len()..9 { ns *= 10; } }
    Some((sign * y, m, d, h, mi, sec, ns, off))
}

/// integer nanoseconds since the epoch and offset, from the reply's own fields and its RFC 3339 text
fn canon_date(d: &DateReply, zone: Option<Tz>) -> String {
    let local = (days_from_civil(d.year as i64, d.month as i64, d.day as i64) as i128 * 86_400 + d.hour as i128 * 3600 + d.minute as i128 * 60 + d.second as i128) * NS + d.nanosecond as i128;
    let (ry, rm, rd, rh, rmi, rs, rns, roff) = match rfc_parse(&d.rfc3339) { Some(x) => x, None => return format!("date-inconsistent unparsable-rfc3339:{}", hex(&d.rfc3339)) };
    let rlocal = (days_from_civil(ry, rm, rd) as i128 * 86_400 + rh as i128 * 3600 + rmi as i128 * 60 + rs as i128) * NS + rns as i128;
    if rlocal != local { return format!("date-inconsistent fields-vs-rfc3339:{}", hex(&d.rfc3339)); }
    match zone {
        None => format!("date {} {}", local - roff as i128 * NS, roff),
        Some(tz) => {
            // the zone's offsets for this wall-clock time; RFC 3339 shows the offset rounded to minutes
            let days = local.div_euclid(86_400 * NS) as i64;
            let sod = (local.rem_euclid(86_400 * NS) / NS) as i64;
            // (outside chrono's own date range the zone cannot be asked: take the offset the text shows)
            let cands: Vec<i64> = match local_in(tz, days, sod.min(86_399)) { Some(Loc::Single(o)) => vec![o], Some(Loc::Ambiguous(a, b)) => vec![a, b], Some(Loc::Gap) => vec![], None => vec![roff] };
            let round = |o: i64| -> i64 { let m = (o.abs() + 30) / 60; o.signum() * m * 60 };
            match cands.iter().find(|o| **o == roff || round(**o) == roff || (**o - roff).abs() < 60) {
                Some(o) => format!("date {} zone", local - *o as i128 * NS),
                None => format!("date-inconsistent offset-{}-not-of-zone-{}", roff, tz.name()),
            }
        }
    }
}

fn canon(r: &Result<QueryReply, QueryError>, zone: Option<Tz>) -> String {
    let secs = Dimensionality::base_unit(BaseUnit::new("s"));
    let num = |n: &Option<Number>| -> String {
        match n { Some(n) if n.unit == secs => format!("dur {}", evalsess::fmt_numeric(&n.value)), Some(n) => format!("number {}", evalsess::fmt_number(n)), None => "number none".into() }
    };
    match r {
        Err(_) => "err".into(),
        Ok(QueryReply::Date(d)) => canon_date(d, zone),
        Ok(QueryReply::Number(p)) => num(&p.raw_value),
        Ok(QueryReply::Duration(d)) => num(&d.raw.raw_value),
        Ok(_) => "other".into(),
    }
}

fn eval(ctx: &mut Context, q: &str, zone: Option<Tz>) -> String {
    std::panic::catch_unwind(std::panic::AssertUnwindSafe(|| {
        let (_q, r) = evalsess::eval_pinned(ctx, q);
        // rendering must not panic either
        let _ = match &r { Ok(v) => v.to_string(), Err(e) => e.to_string() };
        canon(&r, zone)
    })).unwrap_or_else(|_| "panic".into())
}

fn fmt_inst(ns: i128, z: &ZoneOut) -> String { match z { ZoneOut::Fixed(o) => format!("date {} {}", ns, o), ZoneOut::Named(_) => format!("date {} zone", ns) } }

// ------------------------------------------------------------------ the stream
struct Out {
    req: std::io::BufWriter<std::fs::File>, imp: std::io::BufWriter<std::fs::File>, orc: std::io::BufWriter<std::fs::File>,
    total: u64, oracle_checked: u64, nviol: u64, kinds: std::collections::BTreeMap<String, u64>, answers: std::collections::BTreeMap<String, u64>,
    laws: std::collections::BTreeMap<String, u64>, samples: Vec<String>, distinct: std::collections::HashSet<u64>, model_lines: u64, now: i64,
}
impl Out {
    /// one evaluated case: `req` (None = outside the model's input language, oracle only), the
    /// implementation's answer, and the oracle's verdict
    fn case(&mut self, kind: &str, query: &str, req: Option<String>, got: &str, want: Option<(&str, String)>, tz: Option<Tz>) {
        let now = self.now;
        use std::hash::{Hash, Hasher};
        self.total += 1;
        *self.kinds.entry(kind.to_string()).or_insert(0) += 1;
        *self.answers.entry(got.split(' ').next().unwrap_or("").to_string()).or_insert(0) += 1;
        let mut h = std::collections::hash_map::DefaultHasher::new();
        query.hash(&mut h);
        self.distinct.insert(h.finish());
        if self.total % 997 == 1 && self.samples.len() < 24 { self.samples.push(format!("{}  =>  {}", query, got)); }
        if let Some(r) = &req { writeln!(self.req, "{}", r).unwrap(); writeln!(self.imp, "{}", got).unwrap(); self.model_lines += 1; }
        let mut viol: Option<(String, String)> = None;
        if got == "panic" { viol = Some((want.as_ref().map(|w| w.0.to_string()).unwrap_or_else(|| format!("no-panic:{}", kind)), want.as_ref().map(|w| w.1.clone()).unwrap_or_else(|| "an answer or an error".into()))); }
        else if got.starts_with("date-inconsistent") { viol = Some(("reply-consistent".into(), "year/month/day/hour/minute/second/nanosecond fields, rfc3339 text and zone agree".into())); }
        else if let Some((law, w)) = &want {
            self.oracle_checked += 1;
            let ok = if w == "err" { got == "err" } else if let Some(rest) = w.strip_prefix("within1ns ") {
                // `dur` or `date`: the answer must lie within one nanosecond of the exact value, on the side of zero
                within_one_ns(rest, got)
            } else { got == w };
            if !ok { viol = Some((law.to_string(), w.clone())); }
        }
        if let Some((law, w)) = viol {
            self.nviol += 1;
            *self.laws.entry(law.clone()).or_insert(0) += 1;
            if self.laws[&law] <= 40 {
                writeln!(self.orc, "{}", json!({"law": law, "query": query, "want": w, "got": got, "req": req, "tz": tz.map(|t| t.name().to_string()), "now": now, "kind": kind})).unwrap();
            }
        }
    }
}

fn parse_r(s: &str) -> Option<R> { let (a, b) = s.split_once('/')?; Some(R::new(BigInt::from_str(a).ok()?, BigInt::from_str(b).ok()?)) }
fn within_one_ns(want: &str, got: &str) -> bool {
    let (wk, wv) = match want.split_once(' ') { Some(x) => x, None => return false };
    let mut gp = got.split(' ');
    if gp.next() != Some(wk) { return false; }
    let gv = match gp.next() { Some(x) => x, None => return false };
    let one = R::new(BigInt::one(), BigInt::from(NS));
    if wk == "dur" {
        match (parse_r(wv), parse_r(gv)) { (Some(w), Some(g)) => (&w - &g).abs() < one && (g.is_zero() || g.is_positive() == w.is_positive()) && g.abs() <= w.abs(), _ => false }
    } else { false }
}

fn hexq(s: &str) -> String { s.to_string() }

struct Gen<'a> { ctx: Context, out: Out, rng: Rng, units: Units, zones: Vec<Tz>, now: i64, _p: std::marker::PhantomData<&'a ()> }

impl<'a> Gen<'a> {
    fn lit_case(&mut self, kind: &str, l: &Lit) {
        let q = format!("#{}#", l.text);
        let got = eval(&mut self.ctx, &q, l.named());
        let want = match l.want(self.now) {
            Want::Inst(ns, z) => Some(("pattern-denotes", fmt_inst(ns, &z))),
            Want::Refuse(why) => Some((match why { "impossible-date" => "impossible-date-refused", "impossible-time" => "impossible-time-refused", "offset-out-of-range" => "literal-offset-refused",
                "unusable-date-fields" => "unusable-date-fields-refused", "nonexistent-local-time" => "nonexistent-local-time-refused", "fraction-too-long" => "fraction-digits-refused", _ => "malformed-literal-refused" }, "err".to_string())),
            Want::NoExpect => None,
        };
        let req = l.lean(self.now).map(|t| format!("lit {}", t));
        self.out.case(kind, &hexq(&q), req, &got, want, l.named());
    }

    /// all arithmetic forms for one literal and one duration (t > 0)
    fn arith_cases(&mut self, l: &Lit, d: &Dur) {
        let (base, zone) = match l.want(self.now) { Want::Inst(ns, z) => (ns, z), _ => return };
        let tzh = l.named();
        let lean = l.lean(self.now);
        let k = trunc_ns(&d.t);
        let exact = whole_ns(&d.t);
        let in_dur_range = d.t <= R::from_integer(BigInt::from(MAX_SECS));
        let lit = format!("#{}#", l.text);
        let k128 = k.to_i128();
        let place = |delta_sign: i128| -> Option<i128> { k128.and_then(|k| { let n = base + delta_sign * k; if in_dur_range && n >= min_ns() && n <= max_ns() { Some(n) } else { None } }) };
        let tn = fmt_r(&d.t);
        let tneg = fmt_r(&-d.t.clone());
        let lawx = |s: &'static str| -> &'static str { s };
        // #d# + t
        let forms: Vec<(&str, String, Option<String>, Option<i128>, &str)> = vec![
            ("add", format!("{} + {}", lit, d.text), lean.as_ref().map(|x| format!("add {} {} s", x, tn)), place(1), "add-exact"),
            ("add-neg", format!("{} + (-{})", lit, d.text), lean.as_ref().map(|x| format!("add {} {} s", x, tneg)), place(-1), "add-exact"),
            ("sub", format!("{} - {}", lit, d.text), lean.as_ref().map(|x| format!("sub {} {} s", x, tn)), place(-1), "sub-exact"),
            ("sub-neg", format!("{} - (-{})", lit, d.text), lean.as_ref().map(|x| format!("sub {} {} s", x, tneg)), place(1), "sub-exact"),
            ("add-commuted", format!("{} + {}", d.text, lit), lean.as_ref().map(|x| format!("add {} {} s", x, tn)), place(1), "add-exact"),
        ];
        for (kind, q, req, n, law) in forms {
            let got = eval(&mut self.ctx, &q, tzh);
            // whole nanoseconds: the exact instant; otherwise truncation toward zero is what the code documents — only the range error is judged
            let want = match n { Some(n) => if exact { Some((lawx(law), fmt_inst(n, &zone))) } else { None }, None => Some(("out-of-range-refused", "err".to_string())) };
            self.out.case(kind, &q, req, &got, want, tzh);
        }
        // (d + t) - d = t ; (d - t) - d = -t
        for (kind, sign, text, tv) in [("addsub", 1i128, d.text.clone(), d.t.clone()), ("addsub-neg", -1, format!("(-{})", d.text), -d.t.clone())] {
            let q = format!("({} + {}) - {}", lit, text, lit);
            let got = eval(&mut self.ctx, &q, None);
            let want = match place(sign) { Some(_) => if exact { Some(("add-sub-roundtrip", format!("dur {}", fmt_r(&tv)))) } else { Some(("add-sub-roundtrip", format!("within1ns dur {}", fmt_r(&tv)))) }, None => Some(("out-of-range-refused", "err".to_string())) };
            self.out.case(kind, &q, lean.as_ref().map(|x| format!("addsub {} {} s", x, fmt_r(&tv))), &got, want, None);
        }
        // d - t + t = d ; d + t - t = d
        for (kind, op1, op2, sign, reqop) in [("subadd", "-", "+", -1i128, "subadd"), ("addsubdur", "+", "-", 1, "addsubdur")] {
            let q = format!("{} {} {} {} {}", lit, op1, d.text, op2, d.text);
            let got = eval(&mut self.ctx, &q, tzh);
            let want = match place(sign) { Some(_) => Some(("sub-add-roundtrip", fmt_inst(base, &zone))), None => Some(("out-of-range-refused", "err".to_string())) };
            self.out.case(kind, &q, lean.as_ref().map(|x| format!("{} {} {} s", reqop, x, tn)), &got, want, tzh);
        }
    }

    fn diff_case(&mut self, a: &Lit, b: &Lit) {
        let (na, nb) = match (a.want(self.now), b.want(self.now)) { (Want::Inst(x, _), Want::Inst(y, _)) => (x, y), _ => return };
        let q = format!("#{}# - #{}#", a.text, b.text);
        let got = eval(&mut self.ctx, &q, None);
        let want = format!("dur {}", fmt_r(&R::new(BigInt::from(na - nb), BigInt::from(NS))));
        let req = match (a.lean(self.now), b.lean(self.now)) { (Some(x), Some(y)) => Some(format!("diff {} {}", x, y)), _ => None };
        self.out.case("diff", &q, req, &got, Some(("gregorian-difference", want)), None);
    }

    fn conv_case(&mut self, l: &Lit, neg: bool, hh: &str, mm: &str) {
        let base = match l.want(self.now) { Want::Inst(ns, _) => ns, _ => return };
        let q = format!("#{}# -> {}{}:{}", l.text, if neg { "-" } else { "+" }, hh, mm);
        let got = eval(&mut self.ctx, &q, None);
        let two = hh.len() == 2 && mm.len() == 2 && all_digits(hh) && all_digits(mm);
        let (want, req) = if two {
            let off = (hh.parse::<i64>().unwrap() * 3600 + mm.parse::<i64>().unwrap() * 60) * if neg { -1 } else { 1 };
            let req = l.lean(self.now).map(|x| format!("conv {} {} {} {}", x, if neg { "-" } else { "+" }, hh, mm));
            if off.abs() < 86_400 { (Some(("rezone-preserves-instant", fmt_inst(base, &ZoneOut::Fixed(off)))), req) } else { (Some(("offset-refused", "err".to_string())), req) }
        } else { (Some(("offset-refused", "err".to_string())), None) };
        self.out.case("conv-offset", &q, req, &got, want, None);
    }

    fn tz_case(&mut self, l: &Lit, tz: Tz) {
        let base = match l.want(self.now) { Want::Inst(ns, _) => ns, _ => return };
        let name = tz.name();
        let plain = name.chars().all(|c| c.is_ascii_alphanumeric() || c == '_') && !name.chars().next().unwrap().is_ascii_digit();
        let q = if plain && self.rng.chance(1, 2) { format!("#{}# -> {}", l.text, name) } else { format!("#{}# -> \"{}\"", l.text, name) };
        let got = eval(&mut self.ctx, &q, Some(tz));
        let req = l.lean(self.now).map(|x| format!("tz {} {}", x, hex(name)));
        self.out.case("conv-zone", &q, req, &got, Some(("rezone-preserves-instant", fmt_inst(base, &ZoneOut::Named(tz)))), Some(tz));
    }

    fn set_now(&mut self, secs: i64) {
        self.now = secs;
        self.out.now = secs;
        self.ctx.set_time(chrono::Local.timestamp_opt(secs, 0).unwrap());
        writeln!(self.out.req, "now {}", secs).unwrap();
        writeln!(self.out.imp, "ok").unwrap();
        self.out.model_lines += 1;
    }
}

fn simple(text: &str, dk: Dk, y: i64, m: i64, d: i64, time: Option<Tm>, zone: Zs) -> Lit {
    let days = days_from_civil(y, m.clamp(1, 12), d.clamp(1, 28));
    Lit { dk, y, m, d, ord: days - days_from_civil(y, 1, 1) + 1, wd: (days + 3).rem_euclid(7), time, zone, text: text.into(), no_model: false }
}
fn tm(h: i64, mi: i64, sec: Option<(&str, Option<&str>)>) -> Tm { Tm { h, mi, sec: sec.map(|(s, f)| (s.to_string(), f.map(|f| f.to_string()))) } }
fn fixed(neg: bool, h: &str, m: Option<&str>) -> Zs { Zs::Fixed { neg, h: h.into(), m: m.map(|m| m.into()) } }

/// what the implementation does at each of the seven switch points of the model (first line of the stream)
fn variant_line(ctx: &mut Context) -> String {
    let secs = |n: i64, d: i64| Number::new_unit(Numeric::from_frac(n, d), BaseUnit::new("s"));
    let subms = std::panic::catch_unwind(|| rink_core::parsing::datetime::to_duration(&secs(1, 1_000_000)).ok().and_then(|d| d.num_nanoseconds()))
        .ok().flatten().map(|ns| (ns * 1000).to_string()).unwrap_or_else(|| "?".into());
    let cls = |ctx: &mut Context, q: &str| -> String { let a = eval(ctx, q, None); a.split(' ').next().unwrap().to_string() };
    let convoff = cls(ctx, "#2020-01-01# -> +24:00");
    let secfrac = cls(ctx, "#2020-01-01 00:00:00.0000000000#");
    let litovf = cls(ctx, "#2020-01-01 00:00:00 +999999999:00#");
    let litrange = match cls(ctx, "#2020-01-01 00:00:00 +24:00#").as_str() { "date" => "utc".to_string(), x => x.to_string() };
    let fallback = match cls(ctx, "#2021-02-30 10:00#").as_str() { "date" => "any".to_string(), "err" => "absent".to_string(), x => x.to_string() };
    ctx.set_time(chrono::Local.timestamp_opt(1_585_483_200, 0).unwrap()); // 2020-03-29T12:00:00Z: 01:30 does not exist in London that day
    let today = cls(ctx, "#01:30 Europe/London#");
    ctx.set_time(chrono::Local.timestamp_opt(NOW, 0).unwrap());
    format!("variant subms={} convoff={} secfrac={} litovf={} litrange={} fallback={} today={}", subms, convoff, secfrac, litovf, litrange, fallback, today)
}

fn main() {
    let args: Vec<String> = std::env::args().skip(1).collect();
    std::panic::set_hook(Box::new(|_| {}));
    // --query TEXT [--tz NAME]: canonical answer of one query (used by replay)
    if let Some(p) = args.iter().position(|a| a == "--query") {
        let mut ctx = evalsess::new_context();
        if let Some(n) = args.iter().position(|a| a == "--now") { ctx.set_time(chrono::Local.timestamp_opt(args[n + 1].parse().unwrap_or(NOW), 0).unwrap()); }
        let tz = args.iter().position(|a| a == "--tz").and_then(|i| Tz::from_str(&args[i + 1]).ok());
        println!("{}", eval(&mut ctx, &args[p + 1], tz));
        return;
    }
    if args.iter().any(|a| a == "--variant") { let mut ctx = evalsess::new_context(); println!("{}", variant_line(&mut ctx)); return; }
    let o = Opts::parse(&args);
    let ctx = evalsess::new_context();
    let units = Units::load(&ctx);
    let zones: Vec<Tz> = ZONES.iter().filter_map(|z| Tz::from_str(z).ok()).filter(|z| lexable_zone(z.name())).collect();
    let all_zones: Vec<Tz> = chrono_tz::TZ_VARIANTS.iter().cloned().filter(|z| z.name() != "GB").collect();
    let out = Out { req: o.writer("req.txt"), imp: o.writer("impl.txt"), orc: o.writer("oracle.jsonl"), total: 0, oracle_checked: 0, nviol: 0, kinds: Default::default(), answers: Default::default(),
        laws: Default::default(), samples: vec![], distinct: Default::default(), model_lines: 0, now: NOW };
    let mut g = Gen { ctx, out, rng: Rng::new(o.seed), units, zones, now: NOW, _p: std::marker::PhantomData };

    // ---- line 1: which behaviour the implementation shows at the model's switch points
    let v = variant_line(&mut g.ctx);
    writeln!(g.out.req, "variant").unwrap();
    writeln!(g.out.imp, "{}", v).unwrap();
    g.out.model_lines += 1;

    // ---- API level: to_duration / from_duration
    {
        let mut ks: Vec<BigInt> = [0i64, 1, -1, 999, 1000, 999_999, 1_000_000, 1_000_001, -1_500_001, 500_000, 999_999_999, 1_000_000_000, 86_400_000_000_000].iter().map(|k| BigInt::from(*k)).collect();
        let n = if o.thorough { 50_000 } else { 1500 };
        for _ in 0..n { let k = gen_ns(&mut g.rng); ks.push(if g.rng.chance(1, 2) { -k } else { k }); }
        for k in ks {
            let t = R::new(k.clone(), BigInt::from(NS));
            let in_range = t.abs() <= R::from_integer(BigInt::from(MAX_SECS));
            let num = Number::new_unit(Numeric::Rational(rink_core::types::BigRat::ratio(&rink_core::types::BigInt::from_str_radix(&t.numer().to_string(), 10).unwrap(), &rink_core::types::BigInt::from_str_radix(&t.denom().to_string(), 10).unwrap())), BaseUnit::new("s"));
            let got = std::panic::catch_unwind(|| match rink_core::parsing::datetime::to_duration(&num) {
                Ok(d) => format!("ns {}", d.num_seconds() as i128 * NS + d.subsec_nanos() as i128), Err(_) => "err".into() }).unwrap_or_else(|_| "panic".into());
            let want = if in_range { format!("ns {}", k) } else { "err".into() };
            g.out.case("to_duration", &format!("to_duration({} s)", fmt_r(&t)), Some(format!("todur {} s", fmt_r(&t))), &got, Some(("to-duration-exact", want)), None);
            if in_range {
                let k128 = k.to_i128().unwrap();
                let d = chrono::Duration::seconds(k128.div_euclid(NS) as i64) + chrono::Duration::nanoseconds(k128.rem_euclid(NS) as i64);
                let got = std::panic::catch_unwind(|| match rink_core::parsing::datetime::from_duration(&d) { Ok(n) => format!("dur {}", evalsess::fmt_numeric(&n.value)), Err(_) => "err".into() }).unwrap_or_else(|_| "panic".into());
                g.out.case("from_duration", &format!("from_duration({} ns)", k), Some(format!("fromdur {}", k)), &got, Some(("from-duration-exact", format!("dur {}", fmt_r(&t)))), None);
            }
        }
        // a number that is not a time
        let got = std::panic::catch_unwind(|| match rink_core::parsing::datetime::to_duration(&Number::new_unit(Numeric::from(1), BaseUnit::new("m"))) { Ok(_) => "ns ?".to_string(), Err(_) => "err".into() }).unwrap_or_else(|_| "panic".into());
        g.out.case("to_duration", "to_duration(1 m)", Some("todur 1/1 m".into()), &got, Some(("to-duration-exact", "err".into())), None);
    }

    // ---- fixed corpus: the witnesses of DESIGN.md §6 rows 6-8 and of everything found since
    let d2020 = simple("2020-01-01", Dk::Ymd, 2020, 1, 1, None, Zs::None);
    let d2020t = simple("2020-06-01 12:00 +01:00", Dk::Ymd, 2020, 6, 1, Some(tm(12, 0, None)), fixed(false, "01", Some("00")));
    for (text, t) in [("0.0005 s", rat(1, 2000)), ("1 ns", rat(1, NS)), ("1.5 ms", rat(3, 2000)), ("1 ms", rat(1, 1000)), ("1 s", rat(1, 1)), ("1 hour", rat(3600, 1)), ("1 week", rat(604_800, 1)),
        ("9223372036854774.9999995 s", rat(92_233_720_368_547_749_999_995, 10_000_000)), ("9223372036854775 s", rat(MAX_SECS as i128, 1)), ("9223372036854776 s", rat(MAX_SECS as i128 + 1, 1)), ("8300000000000 s", rat(8_300_000_000_000, 1))] {
        g.arith_cases(&d2020, &Dur { text: text.into(), t });
    }
    for (neg, hh, mm) in [(false, "25", "00"), (true, "24", "00"), (false, "99", "99"), (false, "24", "00"), (false, "23", "59"), (true, "23", "59"), (true, "08", "00"), (false, "00", "00"), (false, "5", "00"), (false, "005", "00"), (false, "05", "0")] {
        g.conv_case(&d2020t, neg, hh, mm);
    }
    for z in ["Europe/London", "UTC", "US/Pacific", "Asia/Kathmandu", "America/Port-au-Prince", "Etc/GMT+5"] { if let Ok(tz) = Tz::from_str(z) { g.tz_case(&d2020t, tz); } }
    let corpus: Vec<Lit> = vec![
        simple("2020-01-01 00:00:00.0000000000", Dk::Ymd, 2020, 1, 1, Some(tm(0, 0, Some(("00", Some("0000000000"))))), Zs::None),
        simple("2020-01-01 00:00:00 +999999999:00", Dk::Ymd, 2020, 1, 1, Some(tm(0, 0, Some(("00", None)))), fixed(false, "999999999", Some("00"))),
        simple("2020-01-01 00:00:00 +24:00", Dk::Ymd, 2020, 1, 1, Some(tm(0, 0, Some(("00", None)))), fixed(false, "24", Some("00"))),
        simple("2020-01-01 00:00:00 +9999", Dk::Ymd, 2020, 1, 1, Some(tm(0, 0, Some(("00", None)))), fixed(false, "9999", None)),
        simple("2020-01-01 00:00:00 -23:59", Dk::Ymd, 2020, 1, 1, Some(tm(0, 0, Some(("00", None)))), fixed(true, "23", Some("59"))),
        simple("2021-02-30 10:00", Dk::Ymd, 2021, 2, 30, Some(tm(10, 0, None)), Zs::None),
        simple("2021-02-30", Dk::Ymd, 2021, 2, 30, None, Zs::None),
        simple("2021-02-28 10:60", Dk::Ymd, 2021, 2, 28, Some(tm(10, 60, None)), Zs::None),
        simple("2021-02-28 10:59:75.5", Dk::Ymd, 2021, 2, 28, Some(tm(10, 59, Some(("75", Some("5"))))), Zs::None),
        simple("2021-02-28 24:00", Dk::Ymd, 2021, 2, 28, Some(tm(24, 0, None)), Zs::None),
        { let mut l = simple("Fri Jan 1 10:00 1970", Dk::Ctime, 1970, 1, 1, Some(tm(10, 0, None)), Zs::None); l.wd = 4; l },
        simple("Thu Jan 1 10:00:01 1970", Dk::Ctime, 1970, 1, 1, Some(tm(10, 0, Some(("01", None)))), Zs::None),
        { let mut l = simple("2021-366 10:00", Dk::Ordinal, 2021, 12, 31, Some(tm(10, 0, None)), Zs::None); l.ord = 366; l },
        { let mut l = simple("2020-366 10:00", Dk::Ordinal, 2020, 12, 31, Some(tm(10, 0, None)), Zs::None); l.ord = 366; l },
        simple("2020-W05 10:00", Dk::Unusable, 2020, 1, 1, Some(tm(10, 0, None)), Zs::None),
        simple("--03-05 10:00", Dk::Unusable, 2020, 3, 5, Some(tm(10, 0, None)), Zs::None),
        simple("2020-W05", Dk::Unusable, 2020, 1, 1, None, Zs::None),
        simple("2020-03-29 01:30 Europe/London", Dk::Ymd, 2020, 3, 29, Some(tm(1, 30, None)), Zs::Named(Tz::Europe__London)),
        simple("2020-10-25 01:30 Europe/London", Dk::Ymd, 2020, 10, 25, Some(tm(1, 30, None)), Zs::Named(Tz::Europe__London)),
        simple("2021-03-14 02:30 America/New_York", Dk::Ymd, 2021, 3, 14, Some(tm(2, 30, None)), Zs::Named(Tz::America__New_York)),
        simple("2021-11-07 01:30:00.5 America/New_York", Dk::Ymd, 2021, 11, 7, Some(tm(1, 30, Some(("00", Some("5"))))), Zs::Named(Tz::America__New_York)),
        simple("1800-01-01 12:00 Europe/Amsterdam", Dk::Ymd, 1800, 1, 1, Some(tm(12, 0, None)), Zs::Named(Tz::Europe__Amsterdam)),
        simple("2021-02-28 10:59:60", Dk::Ymd, 2021, 2, 28, Some(tm(10, 59, Some(("60", None)))), Zs::None),
        simple("January 1, 1970", Dk::Ymd, 1970, 1, 1, None, Zs::None),
        simple("44 March 15 bc", Dk::Ymd, -43, 3, 15, None, Zs::None),
        simple("0001-01-01", Dk::Ymd, 1, 1, 1, None, Zs::None),
        simple("9999-12-31 23:59:59.999999999", Dk::Ymd, 9999, 12, 31, Some(tm(23, 59, Some(("59", Some("999999999"))))), Zs::None),
        simple("22:30:10.5 +02:00", Dk::Today, 2023, 11, 14, Some(tm(22, 30, Some(("10", Some("5"))))), fixed(false, "02", Some("00"))),
        simple("10:30 pm", Dk::Today, 2023, 11, 14, Some(tm(22, 30, None)), Zs::None),
        simple("22:30 Asia/Tokyo", Dk::Today, 2023, 11, 14, Some(tm(22, 30, None)), Zs::Named(Tz::Asia__Tokyo)),
        simple("262142-12-31 23:59:59", Dk::Ymd, 262_142, 12, 31, Some(tm(23, 59, Some(("59", None)))), Zs::None),
        simple("262143-01-01", Dk::Ymd, 262_143, 1, 1, None, Zs::None),
        simple("-0001-01-01", Dk::Ymd, -1, 1, 1, None, Zs::None),
    ];
    for l in &corpus { g.lit_case("literal-corpus", l); }
    let c0 = corpus[26].clone();
    g.arith_cases(&c0, &Dur { text: "1 ns".into(), t: rat(1, NS) });
    g.diff_case(&corpus[26], &corpus[25]);
    g.diff_case(&d2020, &corpus[18]);
    g.diff_case(&corpus[18], &corpus[20]);

    // ---- every pattern x boundary dates, valid and invalid
    let (n_lit, n_arith, n_diff, n_conv, n_bad) = if o.thorough { (150_000, 150_000, 100_000, 75_000, 50_000) } else { (3000, 2500, 1500, 1200, 1200) };
    for _ in 0..n_lit { let zs = g.zones.clone(); let l = gen_valid(&mut g.rng, &zs); g.lit_case("literal", &l); }
    for _ in 0..n_bad { let zs = g.zones.clone(); let l = gen_invalid(&mut g.rng, &zs); g.lit_case("literal-invalid", &l); }
    // every month end of leap and common years, every pattern family: exhaustive calendar sweep
    for y in [1i64, 4, 100, 400, 1900, 2000, 2023, 2024, 9999] {
        for m in 1..=12 { for d in [1, 28, 29, 30, 31] {
            for fam in 0..4 {
                let mut l = simple("", if fam == 1 { Dk::Ctime } else { Dk::Ymd }, y, m, d, if fam >= 2 { Some(tm(10, 0, None)) } else { None }, Zs::None);
                if fam == 1 && d <= month_len(y, m) { l.wd = (days_from_civil(y, m, d) + 3).rem_euclid(7); }
                if fam == 3 { l.dk = Dk::Ordinal; if d > month_len(y, m) { continue; } l.ord = days_from_civil(y, m, d) - days_from_civil(y, 1, 1) + 1; }
                render(&mut g.rng, &mut l);
                g.lit_case("literal-calendar", &l);
            }
        } }
    }

    // ---- arithmetic
    for i in 0..n_arith {
        let zs = g.zones.clone();
        let l = gen_valid(&mut g.rng, &zs);
        let d = if i % 4 == 3 { let u = Units { list: g.units.list.clone() }; dur_free(&mut g.rng, &u) } else { let k = gen_ns(&mut g.rng); let u = Units { list: g.units.list.clone() }; dur_of_ns(&mut g.rng, &u, &k) };
        if d.t.is_zero() { continue; }
        g.arith_cases(&l, &d);
    }
    for _ in 0..n_diff { let zs = g.zones.clone(); let a = gen_valid(&mut g.rng, &zs); let b = gen_valid(&mut g.rng, &zs); g.diff_case(&a, &b); }

    // ---- conversions
    for i in 0..n_conv {
        let zs = g.zones.clone();
        let l = gen_valid(&mut g.rng, &zs);
        if i % 3 == 0 {
            let tz = if g.rng.chance(1, 2) { *g.rng.pick(&all_zones) } else { *g.rng.pick(&zs) };
            g.tz_case(&l, tz);
        } else {
            let (hh, mm) = match g.rng.below(8) { 0 => (24, 0), 1 => (23, 59), 2 => (0, 0), 3 => (g.rng.range(24, 99), g.rng.range(0, 99)), 4 => (g.rng.range(0, 23), g.rng.range(60, 99)), _ => (g.rng.range(0, 23), g.rng.range(0, 59)) };
            let neg = g.rng.chance(1, 2);
            g.conv_case(&l, neg, &format!("{:02}", hh), &format!("{:02}", mm));
        }
    }

    // ---- other clocks: time-only literals across the date line, and zone transitions on "today"
    for (secs, what) in [(1_582_934_399i64, "2020-02-28T23:59:59Z"), (1_583_020_800, "2020-03-01T00:00:00Z"), (1_609_459_199, "2020-12-31T23:59:59Z"), (951_782_400, "2000-02-29T00:00:00Z")] {
        let _ = what;
        g.set_now(secs);
        for (h, mi) in [(0, 0), (23, 59), (12, 30)] {
            for z in [Zs::None, fixed(false, "14", Some("00")), fixed(true, "12", Some("00")), fixed(false, "0530", None), fixed(true, "23", Some("59")), Zs::Named(Tz::Pacific__Kiritimati), Zs::Named(Tz::Pacific__Pago_Pago)] {
                let mut l = simple("", Dk::Today, 2020, 1, 1, Some(tm(h, mi, None)), z);
                render(&mut g.rng, &mut l);
                g.lit_case("literal-clock", &l);
            }
        }
    }
    for (secs, zone, h, mi) in [(1_585_483_200i64, Tz::Europe__London, 1, 30), (1_603_627_200, Tz::Europe__London, 1, 30), (1_615_723_200, Tz::America__New_York, 2, 30), (1_636_286_400, Tz::America__New_York, 1, 30), (1_585_483_200, Tz::Europe__London, 12, 0)] {
        g.set_now(secs);
        let mut l = simple("", Dk::Today, 2020, 1, 1, Some(tm(h, mi, None)), Zs::Named(zone));
        render(&mut g.rng, &mut l);
        g.lit_case("literal-clock-transition", &l);
    }
    g.set_now(NOW);

    // ---- malformed glue: arbitrary junk between # # must give an answer or an error
    let n_junk = if o.thorough { 75_000 } else { 2000 };
    let alphabet = ["2020", "01", "1", "12", "00", "60", "99", "-", "-", ":", ":", " ", " ", "+", ".", "T", "W", "am", "pm", "bc", "Jan", "Mon", "UTC", "Europe/London", "0000000000", "99999999999", ",", "#"];
    for _ in 0..n_junk {
        let n = 1 + g.rng.below(10);
        let body: String = (0..n).map(|_| *g.rng.pick(&alphabet)).collect();
        let q = format!("#{}", body);
        let got = eval(&mut g.ctx, &q, None);
        let got = if got == "panic" { got } else { "answered".to_string() };
        g.out.case("junk", &q, None, &got, None, None);
    }

    g.out.req.flush().unwrap(); g.out.imp.flush().unwrap(); g.out.orc.flush().unwrap();
    let st = json!({
        "total": g.out.total, "model_lines": g.out.model_lines, "distinct": g.out.distinct.len(), "oracle_checked": g.out.oracle_checked, "violations": g.out.nviol,
        "kinds": g.out.kinds, "answers": g.out.answers, "laws_violated": g.out.laws, "samples": g.out.samples, "variant": v,
        "time_units": g.units.list.iter().map(|(n, _)| n.clone()).collect::<Vec<_>>(), "zones_in_literals": g.zones.len(), "zones_as_targets": all_zones.len(),
        "seed": o.seed, "tier": if o.thorough { "thorough" } else { "quick" },
    });
    util::write_json(&format!("{}/stats.json", o.out), &st);
}
