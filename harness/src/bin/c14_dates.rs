//! probe stage
#[path = "../util.rs"]
mod util;
#[path = "../evalsess.rs"]
mod evalsess;

use rink_core::output::QueryReply;
use std::io::BufRead;

fn main() {
    std::panic::set_hook(Box::new(|_| {}));
    let mut ctx = evalsess::new_context();
    for line in std::io::stdin().lock().lines() {
        let line = line.unwrap();
        let res = std::panic::catch_unwind(std::panic::AssertUnwindSafe(|| {
            let (_q, r) = evalsess::eval_pinned(&mut ctx, &line);
            match r {
                Ok(QueryReply::Date(d)) => format!("date {} | {} | {} {} {} {} {} {} {}", d.rfc3339, d.string, d.year, d.month, d.day, d.hour, d.minute, d.second, d.nanosecond),
                Ok(QueryReply::Number(p)) => format!("number {:?}", p.raw_value.map(|n| evalsess::fmt_number(&n))),
                Ok(QueryReply::Duration(p)) => format!("duration {:?}", p.raw.raw_value.map(|n| evalsess::fmt_number(&n))),
                Ok(other) => format!("other {}", other),
                Err(e) => format!("err {}", e),
            }
        }));
        println!("{} => {}", line, res.unwrap_or_else(|_| "panic".into()));
    }
}
