//! C18: a test `Service` for the real `rink_sandbox::Sandbox`.
//!
//!   sbx_service run <timeout_ms> <mem_limit_bytes> <gap_ms> <op>...
//!
//! ops: add:<id> | panic | sleep:<id> (sleeps 4x the time limit, then answers) | oom
//!      (allocates twice the memory limit) | exit | big:<id> (1 MiB payload) | huge:<id> (payload larger than the memory limit)
//! prints one line per request: `ok <id>` | `panic` | `timeout` | `crashed` | `other <error>` | `hang`
//! One sandbox per process (the sandbox installs a ctrl-c handler, which can be done once).
use rink_sandbox::{Alloc, Error, Sandbox, Service};
use serde_derive::{Deserialize, Serialize};
use std::{env, ffi::OsString, io::Error as IoError, time::Duration};

#[global_allocator]
static GLOBAL: Alloc = Alloc::new(usize::MAX);

#[derive(Serialize, Deserialize, Clone, Debug)]
enum Req {
    Add(u64),
    Panic,
    Sleep(u64, u64),
    Oom(usize),
    Exit,
    Big(u64, String),
    /// answers after `sleep_ms` with a payload of `len` bytes
    Blob(u64, usize, u64),
}

#[derive(Serialize, Deserialize, Clone, Debug)]
struct Cfg {
    timeout_ms: u64,
    limit: usize,
}

struct Svc;

impl Service for Svc {
    type Req = Req;
    type Res = (u64, u32, Vec<u8>);
    type Config = Cfg;
    fn args(_config: &Cfg) -> Vec<OsString> { vec!["--child".into()] }
    fn timeout(config: &Cfg) -> Duration { Duration::from_millis(config.timeout_ms) }
    fn create(config: Cfg) -> Result<Self, IoError> {
        GLOBAL.set_limit(config.limit);
        Ok(Svc)
    }
    fn handle(&self, req: Req) -> (u64, u32, Vec<u8>) {
        let (id, pid) = self.handle_small(req.clone());
        match req { Req::Blob(_, len, _) => (id, pid, vec![7u8; len]), _ => (id, pid, vec![]) }
    }
}
impl Svc {
    fn handle_small(&self, req: Req) -> (u64, u32) {
        let pid = std::process::id();
        match req {
            Req::Add(id) => (id, pid),
            Req::Panic => panic!("requested panic"),
            Req::Sleep(id, ms) => { std::thread::sleep(Duration::from_millis(ms)); (id, pid) }
            Req::Oom(n) => { let v: Vec<u8> = Vec::with_capacity(n); (v.capacity() as u64, pid) }
            Req::Exit => std::process::exit(3),
            Req::Big(id, s) => (id + (s.len() as u64) * 0, pid),
            Req::Blob(id, _, ms) => { std::thread::sleep(Duration::from_millis(ms)); (id, pid) }
        }
    }
}

fn main() {
    let args: Vec<String> = env::args().collect();
    if args.len() > 1 && args[1] == "--child" {
        // SBX_SLOW_STDOUT=<bytes per millisecond>: what the child writes reaches the parent at that rate, so that a
        // large reply is still on its way when the time limit ends (a deadline in the middle of a frame)
        if let Some(rate) = env::var("SBX_SLOW_STDOUT").ok().and_then(|v| v.parse::<usize>().ok()) {
            use std::io::{Read, Write};
            use std::os::fd::{AsRawFd, FromRawFd};
            let (mut r, w) = std::io::pipe().expect("pipe");
            let real = unsafe { libc::dup(1) };
            unsafe { libc::dup2(w.as_raw_fd(), 1) };
            drop(w);
            std::thread::spawn(move || {
                let mut out = unsafe { std::fs::File::from_raw_fd(real) };
                let mut buf = vec![0u8; rate.max(1) * 4];
                // SBX_DIE_AFTER=<bytes>: the child dies once that much of its output has been passed on (in the middle of a large reply)
                let die_after = env::var("SBX_DIE_AFTER").ok().and_then(|v| v.parse::<usize>().ok());
                let mut passed = 0usize;
                loop {
                    match r.read(&mut buf) { Ok(0) | Err(_) => break, Ok(n) => { if out.write_all(&buf[..n]).is_err() { break; } let _ = out.flush(); passed += n;
                        if let Some(limit) = die_after { if passed > limit { std::process::exit(3); } }
                        std::thread::sleep(Duration::from_millis((n / rate.max(1)) as u64)); } }
                }
            });
        }
        rink_sandbox::become_child::<Svc, _>(&GLOBAL);
    }
    if args.len() < 6 || args[1] != "run" {
        eprintln!("usage: sbx_service run <timeout_ms> <limit> <gap_ms> <op>...");
        std::process::exit(2);
    }
    let timeout_ms: u64 = args[2].parse().unwrap();
    let limit: usize = args[3].parse().unwrap();
    let gap: u64 = args[4].parse().unwrap();
    let ops: Vec<String> = args[5..].to_vec();
    async_std::task::block_on(async move {
        let sandbox = match Sandbox::<Svc>::new(Cfg { timeout_ms, limit }).await {
            Ok(s) => s,
            Err(e) => { println!("other init {}", e); return; }
        };
        let mut last_pid = 0u32;
        for op in ops {
            let (kind, id) = match op.split_once(':') { Some((k, i)) => (k.to_string(), i.parse::<u64>().unwrap_or(0)), None => (op.clone(), 0) };
            let req = match kind.as_str() {
                "add" => Req::Add(id),
                "panic" => Req::Panic,
                "sleep" => Req::Sleep(id, timeout_ms * 4),
                "oom" => Req::Oom(limit * 2),
                "exit" => Req::Exit,
                "big" => Req::Big(id, "x".repeat(1 << 20)),
                // a request that the child cannot even read: larger than its memory limit
                "huge" => Req::Big(id, "x".repeat(limit + (1 << 20))),
                // a reply that is still being received when the time limit ends (with SBX_SLOW_STDOUT)
                "blob" => Req::Blob(id, 6 << 20, timeout_ms / 2),
                // a reply of 17 MiB, well inside the memory limit, answered at once
                "wide" => Req::Blob(id, 17 << 20, 0),
                // a 6 MiB reply during which the child dies (with SBX_DIE_AFTER)
                "diemid" => Req::Blob(id, 6 << 20, 0),
                _ => { println!("bad-op"); continue; }
            };
            let fut = sandbox.execute(req);
            let res = async_std::future::timeout(Duration::from_millis(timeout_ms * 8 + 5000), fut).await;
            match res {
                Err(_) => println!("hang"),
                Ok(Ok(r)) => { let fresh = r.result.1 != last_pid; last_pid = r.result.1; println!("ok {} {}", r.result.0, if fresh { "newchild" } else { "samechild" }); }
                Ok(Err(Error::Panic(_))) => println!("panic"),
                Ok(Err(Error::Timeout(_))) => println!("timeout"),
                Ok(Err(Error::Crashed)) => println!("crashed"),
                Ok(Err(e)) => println!("other {}", format!("{}", e).replace('\n', " ")),
            }
            if gap > 0 { async_std::task::sleep(Duration::from_millis(gap)).await; }
        }
    });
    std::process::exit(0);
}
