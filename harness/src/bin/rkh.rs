//! rkh — harness linking the real rink-rs crates; one sub-command per correspondence stream.
#[path = "../util.rs"]
mod util;
#[path = "../c19_alloc.rs"]
mod c19_alloc;

fn main() {
    let args: Vec<String> = std::env::args().collect();
    if args.len() < 2 {
        eprintln!("usage: rkh <subcommand> [--out DIR] [--seed N] [--tier quick|thorough]");
        std::process::exit(2);
    }
    let opts = util::Opts::parse(&args[2..]);
    let rc = match args[1].as_str() {
        "c19" => c19_alloc::run(&opts),
        "c19-replay" => c19_alloc::replay(&opts),
        other => {
            eprintln!("unknown subcommand {}", other);
            2
        }
    };
    std::process::exit(rc);
}
