//! rkh — harness linking the real rink-rs crates; one sub-command per correspondence stream.
#[path = "../util.rs"]
mod util;
#[path = "../c19_alloc.rs"]
mod c19_alloc;
#[path = "../evalsess.rs"]
mod evalsess;
#[path = "../runner.rs"]
mod runner;
#[path = "../dump.rs"]
mod dump;
#[path = "../gen_arith.rs"]
mod gen_arith;
#[path = "../gen_units.rs"]
mod gen_units;
#[path = "../tables.rs"]
mod tables;
#[path = "../gen_session.rs"]
mod gen_session;
#[path = "../gen_names.rs"]
mod gen_names;
#[path = "../c05_digits.rs"]
mod c05_digits;
#[path = "../c11_expr.rs"]
mod c11_expr;
#[path = "../c16_subst.rs"]
mod c16_subst;
#[path = "../loaddump.rs"]
mod loaddump;
#[path = "../loadscen.rs"]
mod loadscen;
#[path = "../gen_totality.rs"]
mod gen_totality;

fn main() {
    let args: Vec<String> = std::env::args().collect();
    if args.len() < 2 {
        eprintln!("usage: rkh <subcommand> [--out DIR] [--seed N] [--tier quick|thorough]");
        std::process::exit(2);
    }
    let opts = util::Opts::parse(&args[2..]);
    let rc = match args[1].as_str() {
        "c19" => c19_alloc::run(&opts),
        "c19-replay" => c19_alloc::replay(&opts),
        "dump" => dump::run(&opts),
        "tables" => tables::run(&opts),
        "eval-worker" => evalsess::worker(),
        "eval-run" => runner::run(&opts),
        "gen-c01" => gen_arith::run(&opts),
        "gen-c02" => gen_units::run_c02(&opts),
        "gen-c03" => gen_units::run_c03(&opts),
        "gen-c09" => gen_units::run_c09(&opts),
        "gen-c10" => gen_units::run_c10(&opts),
        "gen-c06" => gen_units::run_c06(&opts),
        "gen-c17" => gen_units::run_c17(&opts),
        "c06-lookups" => gen_units::c06_lookups(&opts),
        "gen-c15" => gen_session::run(&opts),
        "c07" => gen_names::run(&opts),
        "c05" => c05_digits::run(&opts),
        "c11" => c11_expr::run(&opts),
        "c16" => c16_subst::run(&opts),
        "defs" => loaddump::defs(&opts),
        "loaddump" => loaddump::loaddump(&opts),
        "jsondefs" => loaddump::jsondefs(&opts),
        "loadone" => loadscen::loadone(&opts),
        "loadscen" => loadscen::run(&opts),
        "gen-c04" => gen_totality::run(&opts),
        "c03-suggest" => gen_units::c03_suggest(&opts),
        "c11-one" => c11_expr::one(&opts),
        "c05-one" => c05_digits::one(&opts),
        "c07-one" => gen_names::one(&opts),
        "encode" => {
            // encode plain-text query lines (stdin) as request lines
            use std::io::BufRead;
            for l in std::io::stdin().lock().lines() { println!("{}", evalsess::req_line(&l.unwrap())); }
            0
        }
        other => {
            eprintln!("unknown subcommand {}", other);
            2
        }
    };
    std::process::exit(rc);
}
