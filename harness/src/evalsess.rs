//! Evaluation worker: owns a real `rink_core::Context`, answers one request line at a time in
//! the canonical text form that the Lean driver prints as well.
use crate::util::hex;
use rink_core::ast::{Conversion, Query};
use rink_core::output::{NumberParts, QueryError, QueryReply};
use rink_core::parsing::text_query::{parse_query, TokenIterator};
use rink_core::types::{Dimensionality, Number, Numeric};
use rink_core::Context;
use std::io::{BufRead, Write};

pub fn enc_name(s: &str) -> String {
    // plain names are written as they are; anything else, and every name starting with `x`
    // (the marker of the hex form), is written as `x<hex>` so that decoding is unambiguous
    if !s.is_empty() && !s.starts_with('x') && s.chars().all(|c| c.is_ascii_alphanumeric() || c == '_') {
        s.to_string()
    } else {
        format!("x{}", hex(s))
    }
}

pub fn fmt_numeric(v: &Numeric) -> String {
    match v {
        Numeric::Rational(_) => {
            let (n, d) = v.to_rational();
            format!("{}/{}", n, d)
        }
        Numeric::Float(_) => "float".to_string(),
    }
}

pub fn fmt_dim(d: &Dimensionality) -> String {
    if d.is_dimensionless() {
        return "-".into();
    }
    d.iter().map(|(k, p)| format!("{}:{}", enc_name(k.as_str()), p)).collect::<Vec<_>>().join(",")
}

pub fn fmt_number(n: &Number) -> String {
    format!("{} {}", fmt_numeric(&n.value), fmt_dim(&n.unit))
}

fn fmt_opt_number(n: &Option<Number>) -> String {
    match n {
        Some(n) => fmt_number(n),
        None => "none".into(),
    }
}

fn entry(p: &NumberParts) -> String {
    match &p.raw_value {
        Some(n) => {
            let name = n.unit.iter().next().map(|(k, _)| enc_name(k.as_str())).unwrap_or_else(|| "?".into());
            format!("{}={}", name, fmt_numeric(&n.value))
        }
        None => "?".into(),
    }
}

static PANIC_SITE: std::sync::Mutex<String> = std::sync::Mutex::new(String::new());

pub fn new_context() -> Context {
    use chrono::TimeZone;
    let mut ctx = rink_core::simple_context().expect("simple_context");
    ctx.use_humanize = false;
    ctx.save_previous_result = true;
    ctx.set_time(chrono::Local.timestamp_opt(1_700_000_000, 0).unwrap());
    ctx
}

/// `helpers::eval` without `update_time`, for the checks that pin the clock (C14).
pub fn eval_pinned(ctx: &mut Context, line: &str) -> (Query, Result<QueryReply, QueryError>) {
    let mut iter = TokenIterator::new(line.trim()).peekable();
    let q = parse_query(&mut iter);
    let res = ctx.eval_query(&q);
    if ctx.save_previous_result {
        if let Ok(QueryReply::Number(ref parts)) = res {
            if let Some(ref raw) = parts.raw_value {
                ctx.previous_result = Some(raw.clone());
            }
        }
    }
    (q, res)
}

/// The real entry point `rink_core::eval` (helpers.rs: update_time, parse, eval_query, store `ans`);
/// the query is parsed a second time only to tell the reply kinds apart in `canon`. The clock
/// therefore moves between queries; nothing that the evaluation worker compares depends on it
/// (dates are answered "other date").
pub fn eval_real(ctx: &mut Context, line: &str) -> (Query, Result<QueryReply, QueryError>) {
    let mut iter = TokenIterator::new(line.trim()).peekable();
    let q = parse_query(&mut iter);
    let res = rink_core::eval(ctx, line);
    (q, res)
}

pub fn canon(q: &Query, r: &Result<QueryReply, QueryError>) -> String {
    match r {
        Err(QueryError::Conformance(_)) => "err conformance".into(),
        Err(QueryError::NotFound(_)) => "err notfound".into(),
        Err(QueryError::Generic { .. }) => "err generic".into(),
        // (a machine float is not compared; its printed text goes to the side channel for judges that want it)
        Ok(QueryReply::Number(p)) => { let v = fmt_opt_number(&p.raw_value); if v.starts_with("float") { format!("number {}\ttext={}", v, hex(&p.format("n u w"))) } else { format!("number {}", v) } }
        Ok(QueryReply::Duration(d)) => format!(
            "duration {} {}",
            fmt_opt_number(&d.raw.raw_value),
            [&d.years, &d.weeks, &d.days, &d.hours, &d.minutes, &d.seconds].iter().map(|p| entry(p)).collect::<Vec<_>>().join(";")
        ),
        Ok(QueryReply::Def(d)) => format!(
            "def {} {}",
            enc_name(&d.canon_name),
            match &d.value { Some(v) => fmt_opt_number(&v.raw_value), None => "none".into() }
        ),
        Ok(QueryReply::Conversion(c)) => {
            let p = &c.value;
            match q {
                Query::Convert(_, Conversion::Expr(_), _, _) | Query::Convert(_, Conversion::Degree(_), _, _) => format!(
                    "conv {} {} {}/{} {}",
                    fmt_opt_number(&p.raw_value),
                    p.raw_dimensions.as_ref().map(fmt_dim).unwrap_or_else(|| "?".into()),
                    p.factor.clone().unwrap_or_else(|| "1".into()),
                    p.divfactor.clone().unwrap_or_else(|| "1".into()),
                    p.raw_unit.as_ref().map(fmt_dim).unwrap_or_else(|| "?".into()),
                ),
                _ => format!("convnone {}", fmt_opt_number(&p.raw_value)),
            }
        }
        Ok(QueryReply::UnitList(l)) => format!("list {}", l.list.iter().map(entry).collect::<Vec<_>>().join(";")),
        Ok(QueryReply::Date(_)) => "other date".into(),
        Ok(QueryReply::Substance(_)) => "other substance".into(),
        Ok(QueryReply::Factorize(f)) => format!("factorize {}", f.factorizations.iter().map(|x| x.units.iter().map(|(n, k)| format!("{}:{}", enc_name(n), k)).collect::<Vec<_>>().join(",")).collect::<Vec<_>>().join(";")),
        Ok(QueryReply::UnitsFor(u)) => format!("unitsfor {} {}", u.of.raw_dimensions.as_ref().map(fmt_dim).unwrap_or_else(|| "?".into()),
            u.units.iter().map(|g| format!("{}:{}", g.category.as_ref().map(|c| hex(c)).unwrap_or_else(|| "-".into()), g.units.iter().map(|n| enc_name(n)).collect::<Vec<_>>().join(","))).collect::<Vec<_>>().join(";")),
        Ok(QueryReply::Search(r)) => format!("search {} {}", r.results.len(), r.results.iter().map(|p| hex(p.unit.as_deref().unwrap_or("?"))).collect::<Vec<_>>().join(",")),
    }
}

pub fn parse_number(v: &str, d: &str) -> Option<Number> {
    use rink_core::types::{BaseUnit, BigInt, BigRat};
    let (n, den) = v.split_once('/')?;
    let val = Numeric::Rational(BigRat::ratio(&BigInt::from_str_radix(n, 10).ok()?, &BigInt::from_str_radix(den, 10).ok()?));
    let mut dims = vec![];
    if d != "-" {
        for part in d.split(',') {
            let (k, p) = part.rsplit_once(':')?;
            let k = if let Some(h) = k.strip_prefix('x') { unhex(h) } else { k.to_string() };
            dims.push((BaseUnit::new(&k), p.parse::<i64>().ok()?));
        }
    }
    Some(Number::new_dims(val, dims.into_iter().collect()))
}

pub fn unhex(s: &str) -> String {
    if s == "-" {
        return String::new();
    }
    let b: Vec<u8> = (0..s.len() / 2).map(|i| u8::from_str_radix(&s[2 * i..2 * i + 2], 16).unwrap_or(b'?')).collect();
    String::from_utf8_lossy(&b).into_owned()
}

/// Also renders the reply in every output form (Display, span tree, JSON): C04 requires that
/// rendering finishes too. The rendered text is not compared.
fn render_all(r: &Result<QueryReply, QueryError>) {
    use rink_core::output::fmt::TokenFmt;
    let _ = match r {
        Ok(v) => v.to_string(),
        Err(e) => e.to_string(),
    };
    let _ = r.spans_to_string();
    let _ = match r {
        Ok(v) => serde_json::to_string(v),
        Err(e) => serde_json::to_string(e),
    };
}

fn hex_opt(o: &Option<String>) -> String { match o { Some(s) => hex(s), None => "-".into() } }

/// every field of a `NumberParts`, for C06
pub fn fmt_parts(kind: &str, p: &NumberParts) -> String {
    format!("parts {} raw={} exact={} approx={} factor={} div={} unit={} rawunit={} quantity={} dims={} rawdims={}",
        kind, fmt_opt_number(&p.raw_value), hex_opt(&p.exact_value), hex_opt(&p.approx_value), hex_opt(&p.factor), hex_opt(&p.divfactor),
        hex_opt(&p.unit), p.raw_unit.as_ref().map(fmt_dim).unwrap_or_else(|| "none".into()), hex_opt(&p.quantity), hex_opt(&p.dimensions),
        p.raw_dimensions.as_ref().map(fmt_dim).unwrap_or_else(|| "none".into()))
}

/// side channel after a tab (not part of the line the model is compared with): the text the user sees
fn shown(p: &NumberParts) -> String { format!("\ttext={}", hex(&p.format("n u w"))) }

pub fn canon_parts(q: &Query, r: &Result<QueryReply, QueryError>) -> String {
    match r {
        Ok(QueryReply::Number(p)) => fmt_parts("number", p) + &shown(p),
        Ok(QueryReply::Conversion(c)) => fmt_parts("conv", &c.value) + &shown(&c.value),
        _ => canon(q, r),
    }
}

/// Worker loop: reads request lines from stdin, one answer line per request on stdout.
/// The worker loop, on a thread whose stack size is `RKH_STACK_KB` KiB when that variable is set
/// (C04 runs it with the 1 MiB of a wasm instance, the smallest stack Rink is deployed on).
pub fn worker() -> i32 {
    match std::env::var("RKH_STACK_KB").ok().and_then(|v| v.parse::<usize>().ok()) {
        Some(kb) => std::thread::Builder::new().stack_size(kb * 1024).spawn(worker_loop).expect("spawn worker thread").join().unwrap_or(101),
        None => worker_loop(),
    }
}

fn worker_loop() -> i32 {
    std::panic::set_hook(Box::new(|info| {
        let loc = info.location().map(|l| format!("{}:{}", l.file().rsplit("/repo/").next().unwrap_or(l.file()), l.line())).unwrap_or_default();
        *PANIC_SITE.lock().unwrap() = loc;
    }));
    let stdin = std::io::stdin();
    let stdout = std::io::stdout();
    let mut out = stdout.lock();
    let mut ctx = new_context();
    for line in stdin.lock().lines() {
        let line = match line { Ok(l) => l, Err(_) => break };
        let parts: Vec<&str> = line.split(' ').collect();
        let ans = match parts.as_slice() {
            ["eval", input, ..] => {
                let text = unhex(input);
                let res = std::panic::catch_unwind(std::panic::AssertUnwindSafe(|| {
                    let (q, r) = eval_real(&mut ctx, &text);
                    render_all(&r);
                    canon(&q, &r)
                }));
                match res { Ok(s) => s, Err(_) => "panic".to_string() }
            }
            ["evalt", input, ..] => {
                // like `eval`, but a panic is answered with its source location (C04)
                let text = unhex(input);
                let res = std::panic::catch_unwind(std::panic::AssertUnwindSafe(|| {
                    let (q, r) = eval_real(&mut ctx, &text);
                    render_all(&r);
                    canon(&q, &r)
                }));
                match res { Ok(s) => s, Err(_) => format!("panic {}", PANIC_SITE.lock().unwrap().replace(' ', "_")) }
            }
            ["evalp", input, ..] => {
                let text = unhex(input);
                let res = std::panic::catch_unwind(std::panic::AssertUnwindSafe(|| {
                    let (q, r) = eval_real(&mut ctx, &text);
                    render_all(&r);
                    canon_parts(&q, &r)
                }));
                match res { Ok(s) => s, Err(_) => "panic".to_string() }
            }
            ["reset"] => { ctx.previous_result = None; ctx.save_previous_result = true; "ok".into() }
            ["preset", v, d] => {
                // previous_result := the given exact number (used by the fresh-context oracle of C15)
                match parse_number(v, d) { Some(n) => { ctx.previous_result = Some(n); "ok".into() } None => "bad-op".into() }
            }
            ["regdigest"] => {
                use std::hash::{Hash, Hasher};
                let mut h = std::collections::hash_map::DefaultHasher::new();
                // everything a Context holds (its Debug form), with the two things a query legitimately changes taken out
                let (prev, now, save) = (ctx.previous_result.take(), ctx.now, ctx.save_previous_result);
                ctx.now = chrono::DateTime::<chrono::Utc>::from_timestamp(0, 0).unwrap().with_timezone(&chrono::Local);
                ctx.save_previous_result = true;
                format!("{:?}", ctx).hash(&mut h);
                ctx.previous_result = prev; ctx.now = now; ctx.save_previous_result = save;
                format!("digest {:016x}", h.finish())
            }
            ["ans", flag] => { ctx.save_previous_result = *flag == "on"; "ok".into() }
            // the caller sets the clock (seconds since the epoch), as a front end with its own idea of time would
            ["settime", secs] => match secs.parse::<i64>().ok().and_then(|s| chrono::DateTime::<chrono::Utc>::from_timestamp(s, 0)) {
                Some(t) => { ctx.set_time(t.with_timezone(&chrono::Local)); "ok".into() }
                None => "bad-op".into(),
            },
            _ => "bad-op".into(),
        };
        writeln!(out, "{}", ans).unwrap();
        out.flush().unwrap();
    }
    0
}

/// Classification sets sent with every request: the non-ASCII characters of the input for
/// which the Rust standard library's predicates hold.
pub fn class_sets(text: &str) -> (String, String) {
    let mut al: Vec<String> = vec![];
    let mut ws: Vec<String> = vec![];
    for c in text.chars() {
        if (c as u32) >= 128 {
            let h = format!("{:x}", c as u32);
            if c.is_alphanumeric() && !al.contains(&h) { al.push(h.clone()); }
            if c.is_whitespace() && !ws.contains(&h) { ws.push(h); }
        }
    }
    (if al.is_empty() { "-".into() } else { al.join(",") }, if ws.is_empty() { "-".into() } else { ws.join(",") })
}

pub fn req_line(text: &str) -> String {
    let (al, ws) = class_sets(text);
    format!("eval {} {} {}", hex(text), al, ws)
}
