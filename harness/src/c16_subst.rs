//! C16 stream (API level): `Substance::get`, `&Substance * &Number`, `&Substance / &Number`,
//! `substance_from_formula` on every substance and property of the loaded database.
//!   req.txt: `sget <subst-hex> <amount n/d> <amount dims (hex names)> <name-hex>` | `formula <hex>`
//!   impl.txt: `ok <value> <dims>` | `err generic` | `err conformance` | `panic` | `none`
use crate::evalsess::{fmt_number, fmt_numeric, new_context};
use crate::util::{hex, Opts, Rng};
use rink_core::parsing::formula::substance_from_formula;
use rink_core::runtime::{Substance, SubstanceGetError};
use rink_core::types::{Dimensionality, Number, Numeric};
use serde_json::json;
use std::io::Write;

fn dim_hex(d: &Dimensionality) -> String {
    if d.is_dimensionless() { return "-".into(); }
    d.iter().map(|(k, p)| format!("{}:{}", hex(k.as_str()), p)).collect::<Vec<_>>().join(",")
}

fn rat(rng: &mut Rng) -> Numeric {
    match rng.below(8) {
        0 => Numeric::from(1), 1 => Numeric::from(1 + rng.below(1000) as i64), 2 => Numeric::from_frac(1 + rng.below(99) as i64, 1 + rng.below(99) as i64),
        3 => Numeric::from_frac(-(1 + rng.below(50) as i64), 7), 4 => Numeric::from_frac(1, 1_000_000_000i64), 5 => Numeric::from(rng.next() as i64 / 3),
        6 => Numeric::from(0), _ => Numeric::from_frac(rng.next() as i64 / 5, 1 + rng.below(1_000_000) as i64),
    }
}

fn show_get(r: Result<Number, SubstanceGetError>) -> String {
    match r { Ok(n) => format!("ok {}", fmt_number(&n)), Err(SubstanceGetError::Generic(_)) => "err generic".into(), Err(SubstanceGetError::Conformance(..)) => "err conformance".into() }
}

pub fn run(o: &Opts) -> i32 {
    let ctx = new_context();
    let mut c2 = new_context();
    c2.save_previous_result = false;
    let reg = &ctx.registry;
    let mut req = o.writer("req.txt");
    let mut imp = o.writer("impl.txt");
    let mut orc = o.writer("oracle.jsonl");
    let mut rng = Rng::new(o.seed);
    std::panic::set_hook(Box::new(|_| {}));
    let (mut total, mut nviol, mut linear_checked) = (0u64, 0u64, 0u64);
    let mut glue_checked = 0u64;
    let mut samples = vec![];
    let reps = if o.thorough { 6 } else { 1 };
    for (sname, s) in &reg.substances {
        let props: Vec<(&String, &rink_core::runtime::Property)> = s.properties.properties.iter().collect();
        for (pname, p) in &props {
            // names that identify this property unambiguously within the substance
            let count = |n: &str| props.iter().filter(|(_, q)| q.input_name == n || q.output_name == n).count();
            for _ in 0..reps {
                let a = rat(&mut rng);
                let dims: Vec<Dimensionality> = vec![p.input.unit.clone(), p.output.unit.clone(), Dimensionality::new(),
                    [(rink_core::types::BaseUnit::new("zz"), 1)].into_iter().collect()];
                for (di, d) in dims.iter().enumerate() {
                    let amount = Number::new_dims(a.clone(), d.clone());
                    let sub: Substance = match s * &amount { Ok(x) => x, Err(_) => continue };
                    for name in [p.output_name.as_str(), p.input_name.as_str(), pname.as_str(), "nosuchproperty"] {
                        let res = std::panic::catch_unwind(std::panic::AssertUnwindSafe(|| show_get(sub.get(name)))).unwrap_or_else(|_| "panic".into());
                        writeln!(req, "sget {} {} {} {}", hex(sname), fmt_numeric(&sub.amount.value), dim_hex(&sub.amount.unit), hex(name)).unwrap();
                        writeln!(imp, "{}", res).unwrap();
                        total += 1;
                        if samples.len() < 8 && total % 1777 == 1 { samples.push(format!("{} of ({} {}) {}", name, fmt_numeric(&sub.amount.value), crate::evalsess::fmt_dim(&sub.amount.unit), sname)); }
                        // --- property oracle (model-independent) ---
                        let zero = Numeric::from(0);
                        let is_base = s.amount == Number::one();
                        // (a zero amount is an amount like any other: its output is zero)
                        if !is_base || p.input.value == zero || p.output.value == zero { continue; }
                        if di == 0 && name == p.output_name && count(name) == 1 && !d.is_dimensionless() {
                            // output of amount a in the input dimensionality = output * (a / input)
                            linear_checked += 1;
                            let want = (&(&p.output * &amount).unwrap() / &p.input).unwrap();
                            let want_s = format!("ok {}", fmt_number(&want));
                            if res != want_s { nviol += 1; writeln!(orc, "{}", json!({"law": "linear", "substance": sname, "property": pname, "name": name, "amount": fmt_number(&amount), "want": want_s, "got": res})).unwrap(); }
                            // the same through the query language (`<name> of <amount> <substance>`): the glue in eval_expr
                            if let (Numeric::Rational(_), true) = (&a, ctx.lookup(sname).is_none() && sname.chars().all(|c| c.is_ascii_alphanumeric() || c == '_') && name.chars().all(|c| c.is_ascii_alphanumeric() || c == '_')) {
                                let (n, dd) = a.to_rational();
                                let unit_text: String = d.iter().map(|(k, p)| format!(" {}^{}", k, p)).collect();
                                let q = format!("{} of (({})|({})){} {}", name, n, dd, unit_text, sname);
                                                                let got = std::panic::catch_unwind(std::panic::AssertUnwindSafe(|| { let (qq, r) = crate::evalsess::eval_pinned(&mut c2, &q); crate::evalsess::canon(&qq, &r) })).unwrap_or_else(|_| "panic".into());
                                let want_q = format!("{} {}", if want.unit == Number::one_unit(rink_core::types::BaseUnit::new("s")).unit { "duration" } else { "number" }, fmt_number(&want));
                                glue_checked += 1;
                                if !got.starts_with(&want_q) { nviol += 1; writeln!(orc, "{}", json!({"law": "of-query", "query": q, "want": want_q, "got": got})).unwrap(); }
                            }
                            // and asking for the input of that result returns a
                            if count(&p.input_name) == 1 {
                                if let Ok(back_sub) = s * &want {
                                    let back = std::panic::catch_unwind(std::panic::AssertUnwindSafe(|| show_get(back_sub.get(&p.input_name)))).unwrap_or_else(|_| "panic".into());
                                    let want_b = format!("ok {}", fmt_number(&amount));
                                    if back != want_b { nviol += 1; writeln!(orc, "{}", json!({"law": "inverse", "substance": sname, "property": pname, "amount": fmt_number(&amount), "want": want_b, "got": back})).unwrap(); }
                                }
                            }
                        }
                        if di == 3 && (name == p.output_name || name == p.input_name) && count(name) == 1 {
                            if res != "err conformance" { nviol += 1; writeln!(orc, "{}", json!({"law": "wrong-dimension", "substance": sname, "property": pname, "name": name, "got": res})).unwrap(); }
                        }
                    }
                }
            }
        }
    }
    // --- the four places that compute a property of an amount must agree: `<p> of <k> <s>` (Substance::get, the
    // modelled one), `<k> <s>` (to_reply), `<k> <s> -> <unit>` (get_in_unit) and `<p> of <k> <s> -> <unit>`
    let mut paths_checked = 0u64;
    {
        use rink_core::output::QueryReply;
        let plain = |n: &str| !n.is_empty() && n.chars().all(|c| c.is_ascii_alphanumeric() || c == '_');
        let mut ev = |q: &str| -> Option<QueryReply> {
            std::panic::catch_unwind(std::panic::AssertUnwindSafe(|| { let (_qq, r) = crate::evalsess::eval_pinned(&mut c2, q); r.ok() })).unwrap_or(None)
        };
        for (sname, s) in &reg.substances {
            if !plain(sname) || ctx.lookup(sname).is_some() { continue; }
            if !o.thorough && !rng.chance(1, 3) { continue; }
            // a dimensioned amount (`2 g water`): the reply lists, for every property one side of which has the
            // amount's dimensionality, the other side under its own name; it must be what `<name> of (<amount> s)` answers
            {
                let mut all_names: Vec<&str> = vec![];
                for (k, p) in s.properties.properties.iter() { all_names.push(k); all_names.push(&p.input_name); all_names.push(&p.output_name); }
                let uniq = |n: &str| plain(n) && all_names.iter().filter(|x| **x == n).count() == 1;
                let utext = |u: &rink_core::types::Dimensionality| u.iter().map(|(k, e)| format!("{}^{}", k, e)).collect::<Vec<_>>().join(" ");
                for (_pname, p) in s.properties.properties.iter() {
                    for (side, other_name) in [(&p.input, &p.output_name), (&p.output, &p.input_name)] {
                        if side.dimless() || !uniq(other_name) { continue; }
                        for k in ["2", "(1|3)", "0.75"] {
                            let amount = format!("{} {}", k, utext(&side.unit));
                            let direct = match ev(&format!("{} of ({} {})", other_name, amount, sname)) { Some(QueryReply::Number(n)) => n.raw_value.clone(), Some(QueryReply::Duration(d)) => d.raw.raw_value.clone(), _ => None };
                            let direct = match direct { Some(d) => d, None => continue };
                            // the same in another base: the numeral listed is the numeral of the conversion asked directly
                            if k == "2" {
                                let other_side = if std::ptr::eq(side, &p.input) { &p.output } else { &p.input };
                                let ut = utext(&other_side.unit);
                                for base in ["hex", "base 7"] {
                                    let direct = match ev(&format!("{} of ({} {}) -> {} {}", other_name, amount, sname, base, ut)) { Some(QueryReply::Conversion(c)) => Some((c.value.exact_value.clone(), c.value.approx_value.clone())), _ => None };
                                    if let (Some(direct), Some(QueryReply::Substance(r))) = (direct, ev(&format!("{} {} -> {} {}", amount, sname, base, ut))) {
                                        let listed: Vec<_> = r.properties.iter().filter(|x| &x.name == other_name).collect();
                                        if listed.len() == 1 {
                                            paths_checked += 1;
                                            let got = (listed[0].value.exact_value.clone(), listed[0].value.approx_value.clone());
                                            if got != direct {
                                                nviol += 1;
                                                writeln!(orc, "{}", json!({"law": "paths-agree", "query": format!("{} {} -> {} {}", amount, sname, base, ut), "property": other_name, "want": format!("{:?}", direct), "got": format!("{:?}", got)})).unwrap();
                                            }
                                        }
                                    }
                                }
                            }
                            if let Some(QueryReply::Substance(r)) = ev(&format!("{} {}", amount, sname)) {
                                let listed: Vec<_> = r.properties.iter().filter(|x| &x.name == other_name).collect();
                                if listed.len() == 1 {
                                    paths_checked += 1;
                                    if listed[0].value.raw_value.as_ref() != Some(&direct) {
                                        nviol += 1;
                                        writeln!(orc, "{}", json!({"law": "paths-agree", "query": format!("{} {}", amount, sname), "property": other_name, "want": fmt_number(&direct), "got": listed[0].value.raw_value.as_ref().map(fmt_number)})).unwrap();
                                    }
                                }
                            }
                        }
                    }
                }
            }
            // a bare substance converted to a unit (`water -> g`): a property with a dimensioned input is listed as a
            // ratio in printed unit names; read back (names resolved by Context::lookup) it must be output / input
            for (pname, p) in s.properties.properties.iter() {
                if !plain(pname) || p.input.dimless() { continue; }
                for (num, den) in [(&p.output, &p.input), (&p.input, &p.output)] {
                    if num.dimless() { continue; }
                    let cands: Vec<&String> = reg.units.iter().filter(|(n, v)| v.unit == num.unit && v.value != Numeric::from(1) && v.value != Numeric::from(0) && plain(n) && n.len() < 12).map(|(n, _)| n).take(40).collect();
                    if cands.is_empty() { continue; }
                    for _ in 0..2 {
                        let u = *rng.pick(&cands);
                        let reference = match num / den { Some(r) => r, None => continue };
                        if let Some(QueryReply::Substance(r)) = ev(&format!("{} -> {}", sname, u)) {
                            let listed: Vec<_> = r.properties.iter().filter(|x| &x.name == pname).collect();
                            if listed.len() != 1 { continue; }
                            let rv = match listed[0].value.raw_value.as_ref() { Some(v) => v, None => continue };
                            // read the printed names back
                            let mut den_ok = true;
                            let mut acc = Number::new(rv.value.clone());
                            for (name, power) in rv.unit.iter() {
                                match ctx.lookup(&name.to_string()) {
                                    Some(v) if *power >= i32::MIN as i64 && *power <= i32::MAX as i64 => { match &acc * &v.powi(*power as i32) { Some(x) => acc = x, None => den_ok = false } }
                                    _ => den_ok = false,
                                }
                            }
                            if !den_ok { continue; }
                            paths_checked += 1;
                            if acc != reference {
                                nviol += 1;
                                writeln!(orc, "{}", json!({"law": "printed-ratio-denotes", "query": format!("{} -> {}", sname, u), "property": pname, "want": fmt_number(&reference), "got": fmt_number(&acc), "printed": fmt_number(rv)})).unwrap();
                            }
                        }
                    }
                }
            }
            for (pname, p) in s.properties.properties.iter() {
                if !plain(pname) || !p.input.dimless() || p.output.unit.is_dimensionless() { continue; }
                let unit_text: String = p.output.unit.iter().map(|(k, e)| format!("{}^{}", k, e)).collect::<Vec<_>>().join(" ");
                for k in ["3", "(1|2)", "7.5"] {
                    // reference: the modelled path
                    let want = match ev(&format!("{} of {} {} -> {}", pname, k, sname, unit_text)) { Some(QueryReply::Conversion(c)) => c.value.raw_value.clone(), _ => None };
                    let want = match want { Some(w) => w, None => continue };
                    paths_checked += 1;
                    if let Some(QueryReply::Substance(r)) = ev(&format!("{} {} -> {}", k, sname, unit_text)) {
                        if let Some(pr) = r.properties.iter().find(|x| &x.name == pname) {
                            if pr.value.raw_value.as_ref() != Some(&want) {
                                nviol += 1;
                                writeln!(orc, "{}", json!({"law": "paths-agree", "query": format!("{} {} -> {}", k, sname, unit_text), "property": pname, "want": fmt_number(&want), "got": pr.value.raw_value.as_ref().map(fmt_number)})).unwrap();
                            }
                        }
                    }
                    // scaling a substance: `k s / j`, `s k / j` and `(k / j) s` are the same amount of the same substance
                    for j in ["2", "(3|4)"] {
                        let num = |r: Option<QueryReply>| match r { Some(QueryReply::Number(n)) => n.raw_value.clone(), Some(QueryReply::Duration(d)) => d.raw.raw_value.clone(), _ => None };
                        let reference = num(ev(&format!("{} of (({}) / ({})) {}", pname, k, j, sname)));
                        for q in [format!("{} of ({} {} / {})", pname, k, sname, j), format!("{} of ({} {} / {})", pname, sname, k, j), format!("{} of ({} / {} * {})", pname, sname, j, k)] {
                            let got = num(ev(&q));
                            if reference.is_some() && got != reference {
                                nviol += 1;
                                writeln!(orc, "{}", json!({"law": "scaling", "query": q, "property": pname, "want": reference.as_ref().map(fmt_number), "got": got.as_ref().map(fmt_number)})).unwrap();
                            }
                        }
                    }
                    let direct = match ev(&format!("{} of {} {}", pname, k, sname)) { Some(QueryReply::Number(n)) => n.raw_value.clone(), Some(QueryReply::Duration(d)) => d.raw.raw_value.clone(), _ => None };
                    if let (Some(direct), Some(QueryReply::Substance(r))) = (direct, ev(&format!("{} {}", k, sname))) {
                        if let Some(pr) = r.properties.iter().find(|x| &x.name == pname) {
                            if pr.value.raw_value.as_ref() != Some(&direct) {
                                nviol += 1;
                                writeln!(orc, "{}", json!({"law": "paths-agree", "query": format!("{} {}", k, sname), "property": pname, "want": fmt_number(&direct), "got": pr.value.raw_value.as_ref().map(fmt_number)})).unwrap();
                            }
                        }
                    }
                }
            }
        }
    }
    // formulas over the element symbols, counts to 2^32-1, near misses
    let syms: Vec<String> = reg.substance_symbols.keys().cloned().collect();
    let nform = if o.thorough { 40_000 } else { 3_000 };
    let fixed = ["H2O", "NaCl", "C6H12O6", "H", "He", "", "h2o", "H2O ", "HO2x", "Xx", "H0", "H4294967295", "H4294967296", "H99999999999", "2H", "H-2", "CH3CH2OH", "Uuo", "HHe"];
    // (formula text, its parts when it was generated well-formed: symbol and count)
    let mut forms: Vec<(String, Option<Vec<(String, u64)>>)> = fixed.iter().map(|s| (s.to_string(), None)).collect();
    for _ in 0..nform {
        let n = 1 + rng.below(5);
        let mut f = String::new();
        let mut parts: Vec<(String, u64)> = vec![];
        for _ in 0..n {
            let sy: &String = rng.pick(&syms); f.push_str(sy);
            let count: Option<u64> = match rng.below(7) { 0 => None, 1 => Some(1 + rng.below(20)), 2 => Some(rng.next() % 4294967296), 3 => Some(4294967295), 4 => Some(2147483648 + rng.below(3)), _ => Some(rng.below(200)) };
            if let Some(c) = count { f.push_str(&format!("{}", c)); }
            parts.push((sy.clone(), count.unwrap_or(1)));
        }
        let mut well = true;
        if rng.chance(1, 10) { let pos = rng.below(f.len() as u64 + 1) as usize; if f.is_char_boundary(pos) { f.insert(pos, *rng.pick(&['x', '-', ' ', 'Q', '.', 'é'])); well = false; } }
        forms.push((f, if well { Some(parts) } else { None }));
    }
    // molar mass of an element symbol, as an exact number of kg/mol
    let elem_mass = |sy: &str| -> Option<Numeric> {
        let s = reg.substances.get(reg.substance_symbols.get(sy)?)?;
        match s.get("molar_mass") { Ok(n) => Some(n.value), Err(_) => None }
    };
    let mut formula_sums = 0u64;
    for (f, parts) in &forms {
        let res = std::panic::catch_unwind(std::panic::AssertUnwindSafe(|| {
            match substance_from_formula(f, &reg.substance_symbols, &reg.substances) {
                Some(s) => show_get(s.get("molar_mass")),
                None => "none".into(),
            }
        })).unwrap_or_else(|_| "panic".into());
        writeln!(req, "formula {}", hex(f)).unwrap();
        writeln!(imp, "{}", res).unwrap();
        total += 1;
        if res == "panic" { nviol += 1; writeln!(orc, "{}", json!({"law": "formula-panic", "formula": f})).unwrap(); }
        if f.is_empty() && res != "none" { nviol += 1; writeln!(orc, "{}", json!({"law": "empty-formula", "formula": f, "got": res})).unwrap(); }
        // the count-weighted sum, computed here from the parts the text was generated from
        if let Some(parts) = parts {
            // (a count of zero is refused by the tokenizer's grammar or accepted as zero: not judged here)
            if parts.iter().all(|(_, c)| *c >= 1) {
                let mut sum = Numeric::from(0);
                let mut ok = true;
                for (sy, c) in parts { match elem_mass(sy) { Some(m) => { sum = &sum + &(&m * &Numeric::from(*c as i64)); } None => ok = false } }
                if ok && res.starts_with("ok ") {
                    formula_sums += 1;
                    let want = format!("ok {} ", crate::evalsess::fmt_numeric(&sum));
                    if !res.starts_with(&want) {
                        nviol += 1;
                        writeln!(orc, "{}", json!({"law": "formula-sum", "formula": f, "want": want.trim(), "got": res})).unwrap();
                    }
                }
            }
        }
    }
    req.flush().unwrap(); imp.flush().unwrap(); orc.flush().unwrap();
    crate::util::write_json(&format!("{}/stats.json", o.out), &json!({"total": total, "substances": reg.substances.len(), "symbols": syms.len(),
        "formulas": forms.len(), "formula_sums_checked": formula_sums, "linear_law_checked": linear_checked, "of_query_checked": glue_checked, "paths_agree_checked": paths_checked, "oracle_violations": nviol, "samples": samples}));
    0
}
