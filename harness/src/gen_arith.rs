//! C01 stream: arithmetic expression trees with an independent exact oracle.
//!
//! Writes req.txt (request lines), expect.txt (what unbounded-precision arithmetic under the
//! documented precedence gives: `number n/d -` or `err`), stats.json.
use crate::evalsess::req_line;
use crate::util::{Opts, Rng};
use num_bigint::BigInt;
use num_rational::BigRational;
use num_traits::{Signed, ToPrimitive, Zero};
use std::io::Write;

#[derive(Clone, Debug)]
pub enum A {
    Lit(BigRational, String),
    Bin(Op, Box<A>, Box<A>),
    Neg(Box<A>),
    Pos(Box<A>),
}

#[derive(Clone, Copy, Debug, PartialEq)]
pub enum Op { Add, Sub, Mul, Div, Frac, Juxt, Pow, Mod, Shl, Shr, And, Or, Xor }

pub const OPS: [Op; 13] = [Op::Add, Op::Sub, Op::Mul, Op::Div, Op::Frac, Op::Juxt, Op::Pow, Op::Mod, Op::Shl, Op::Shr, Op::And, Op::Or, Op::Xor];

fn pow2(k: u32) -> BigRational { BigRational::from_integer(BigInt::from(2).pow(k)) }

pub struct Huge;
const MAX_BITS: u64 = 24_000; // keeps rendering of results (quadratic in digits) well inside the budget

fn sz(v: &BigRational) -> u64 { v.numer().bits() + v.denom().bits() }

/// textbook semantics; Ok(None) = undefined; Err(Huge) = some intermediate value would be
/// astronomically large (the case is not generated).
pub fn spec(e: &A) -> Result<Option<BigRational>, Huge> {
    Ok(match e {
        A::Lit(v, _) => Some(v.clone()),
        A::Neg(x) => spec(x)?.map(|v| -v),
        A::Pos(x) => spec(x)?,
        A::Bin(op, l, r) => {
            let a = match spec(l)? { Some(a) => a, None => return Ok(None) };
            let b = match spec(r)? { Some(b) => b, None => return Ok(None) };
            if sz(&a) + sz(&b) > MAX_BITS { return Err(Huge); }
            match op {
                Op::Add => Some(a + b),
                Op::Sub => Some(a - b),
                Op::Mul | Op::Juxt => Some(a * b),
                Op::Div | Op::Frac => if b.is_zero() { None } else { Some(a / b) },
                Op::Pow => {
                    if !b.is_integer() { return Err(Huge); } // non-integer powers are outside C01
                    let k = match b.to_integer().to_i64() { Some(k) if k.abs() < (1 << 31) => k, _ => return Ok(None) };
                    if k < 0 && a.is_zero() { return Ok(None); }
                    if sz(&a).saturating_mul(k.unsigned_abs().max(1)) > MAX_BITS { return Err(Huge); }
                    let p = BigRational::new(a.numer().pow(k.unsigned_abs() as u32), a.denom().pow(k.unsigned_abs() as u32));
                    Some(if k < 0 { p.recip() } else { p })
                }
                Op::Mod => {
                    if b.is_zero() { return Ok(None); }
                    let q = (&a / &b).trunc();
                    Some(a - b * q)
                }
                Op::Shl | Op::Shr => {
                    if !b.is_integer() { return Ok(None); }
                    let k = match b.to_integer().to_i64() { Some(k) if k.abs() < (1 << 31) => k, _ => return Ok(None) };
                    if sz(&a).saturating_add(k.unsigned_abs()) > MAX_BITS { return Err(Huge); }
                    let k = if *op == Op::Shl { k } else { -k };
                    Some(if k >= 0 { a * pow2(k as u32) } else { a / pow2((-k) as u32) })
                }
                Op::And | Op::Or | Op::Xor => {
                    if !a.is_integer() || !b.is_integer() { return Ok(None); }
                    let (x, y) = (a.to_integer(), b.to_integer());
                    Some(BigRational::from_integer(match op { Op::And => x & y, Op::Or => x | y, _ => x ^ y }))
                }
            }
        }
    })
}

fn level(e: &A) -> u8 {
    match e {
        A::Lit(..) | A::Neg(_) | A::Pos(_) => 5,
        A::Bin(op, ..) => match op {
            Op::Add | Op::Sub => 0,
            Op::Mul | Op::Div | Op::Mod | Op::Shl | Op::Shr | Op::And | Op::Or | Op::Xor => 1,
            Op::Juxt => 2,
            Op::Frac => 3,
            Op::Pow => 4,
        },
    }
}

fn starts_with_sign(e: &A) -> bool {
    match e {
        A::Neg(_) | A::Pos(_) => true,
        A::Lit(..) => false,
        A::Bin(op, l, _) => { let _ = op; starts_with_sign(l) }
    }
}

/// Renders `e` where the grammar expects a phrase of at least `need`; `rng` adds optional
/// redundant parentheses, alternative operator spellings and spacing.
pub fn render(e: &A, need: u8, rng: &mut Rng, out: &mut String) {
    let lv = level(e);
    let paren = lv < need || rng.chance(1, 12);
    if paren { out.push('('); if rng.chance(1, 4) { out.push(' '); } }
    match e {
        A::Lit(_, s) => out.push_str(s),
        A::Neg(x) => { out.push_str(if rng.chance(1, 6) { "\u{2212}" } else { "-" }); if rng.chance(1, 5) { out.push(' '); } render(x, 5, rng, out); }
        A::Pos(x) => { out.push('+'); render(x, 5, rng, out); }
        A::Bin(op, l, r) => {
            let sp = |rng: &mut Rng, out: &mut String| { if rng.chance(3, 4) { out.push(' '); } };
            match op {
                Op::Add | Op::Sub => {
                    render(l, 0, rng, out);
                    // a space is forced before a sign so `a -b` never becomes juxtaposition by accident
                    out.push(' ');
                    out.push_str(if *op == Op::Add { "+" } else if rng.chance(1, 6) { "\u{2212}" } else { "-" });
                    sp(rng, out);
                    render(r, 1, rng, out);
                }
                Op::Mul | Op::Div | Op::Mod | Op::Shl | Op::Shr | Op::And | Op::Or | Op::Xor => {
                    render(l, 1, rng, out);
                    let sym = match op {
                        Op::Mul => "*", Op::Div => if rng.chance(1, 5) { " per " } else { "/" }, Op::Mod => " mod ", Op::Shl => "<<",
                        Op::Shr => ">>", Op::And => " and ", Op::Or => " or ", _ => " xor ",
                    };
                    sp(rng, out); out.push_str(sym); sp(rng, out);
                    render(r, 2, rng, out);
                }
                Op::Juxt => {
                    render(l, 2, rng, out);
                    out.push(' ');
                    if starts_with_sign(r) && level(r) >= 3 {
                        // `a -b` would be a subtraction: the grammar needs parentheses here
                        out.push('('); render(r, 0, rng, out); out.push(')');
                    } else { render(r, 3, rng, out); }
                }
                Op::Frac => { render(l, 4, rng, out); out.push_str(if rng.chance(1, 8) { "\u{2215}" } else { "|" }); render(r, 4, rng, out); }
                Op::Pow => { render(l, 5, rng, out); out.push_str(if rng.chance(1, 4) { "**" } else { "^" }); render(r, 4, rng, out); }
            }
        }
    }
    if paren { if rng.chance(1, 4) { out.push(' '); } out.push(')'); }
}

fn with_seps(digits: &str, rng: &mut Rng) -> String {
    // separators may appear after the first digit, anywhere
    let mut s = String::new();
    for (i, c) in digits.chars().enumerate() {
        if i > 0 && rng.chance(1, 7) { s.push(if rng.chance(1, 2) { '_' } else { '\u{2009}' }); }
        s.push(c);
    }
    s
}

fn ten_pow(k: u32) -> BigInt { BigInt::from(10).pow(k) }

/// a literal with a random notation; its value is computed here positionally
pub fn rand_lit(rng: &mut Rng, max_digits: usize) -> A {
    let nd = 1 + rng.below(max_digits as u64) as usize;
    match rng.below(10) {
        0 => { // hex
            let ds: String = (0..nd).map(|_| *rng.pick(&['0','1','2','3','4','5','6','7','8','9','a','b','c','d','e','f','A','B','C','D','E','F'])).collect();
            let v = BigInt::parse_bytes(ds.to_lowercase().as_bytes(), 16).unwrap();
            A::Lit(BigRational::from_integer(v), format!("0x{}", with_seps(&ds, rng)))
        }
        1 => {
            let ds: String = (0..nd).map(|_| *rng.pick(&['0','1','2','3','4','5','6','7'])).collect();
            A::Lit(BigRational::from_integer(BigInt::parse_bytes(ds.as_bytes(), 8).unwrap()), format!("0o{}", with_seps(&ds, rng)))
        }
        2 => {
            let ds: String = (0..nd).map(|_| *rng.pick(&['0','1'])).collect();
            A::Lit(BigRational::from_integer(BigInt::parse_bytes(ds.as_bytes(), 2).unwrap()), format!("0b{}", with_seps(&ds, rng)))
        }
        _ => {
            let int: String = (0..nd).map(|_| char::from(b'0' + rng.below(10) as u8)).collect();
            let mut v = BigRational::from_integer(BigInt::parse_bytes(int.as_bytes(), 10).unwrap());
            let mut s = with_seps(&int, rng);
            let lead_dot = rng.chance(1, 12);
            if lead_dot { s = String::new(); v = BigRational::zero(); }
            if lead_dot || rng.chance(1, 3) {
                let nf = 1 + rng.below(max_digits as u64) as usize;
                let fr: String = (0..nf).map(|_| char::from(b'0' + rng.below(10) as u8)).collect();
                v += BigRational::new(BigInt::parse_bytes(fr.as_bytes(), 10).unwrap(), ten_pow(nf as u32));
                s.push('.'); s.push_str(&with_seps(&fr, rng));
            }
            if rng.chance(1, 4) {
                let k = rng.range(-40, 40);
                s.push_str(*rng.pick(&["e", "E", "ee", "eE"]));
                if k < 0 { s.push('-'); } else if rng.chance(1, 3) { s.push('+'); }
                let ks = format!("{}{}", if rng.chance(1, 5) { "00" } else { "" }, k.abs());
                s.push_str(&with_seps(&ks, rng));
                let p = BigRational::from_integer(ten_pow(k.unsigned_abs() as u32));
                v = if k < 0 { v / p } else { v * p };
            }
            A::Lit(v, s)
        }
    }
}

fn small_int_lit(rng: &mut Rng, lo: i64, hi: i64) -> A {
    let k = rng.range(lo, hi);
    let l = A::Lit(BigRational::from_integer(BigInt::from(k.abs())), format!("{}", k.abs()));
    if k < 0 { A::Neg(Box::new(l)) } else { l }
}

pub fn rand_tree(rng: &mut Rng, depth: u32, max_digits: usize) -> A {
    if depth == 0 || rng.chance(1, 5) {
        let l = rand_lit(rng, max_digits);
        return if rng.chance(1, 6) { A::Neg(Box::new(l)) } else { l };
    }
    match rng.below(16) {
        0 => A::Neg(Box::new(rand_tree(rng, depth - 1, max_digits))),
        1 => A::Pos(Box::new(rand_tree(rng, depth - 1, max_digits))),
        k => {
            let op = OPS[(k as usize - 2) % OPS.len()];
            let l = rand_tree(rng, depth - 1, max_digits);
            let r = match op {
                Op::Pow => small_int_lit(rng, -6, 9),
                Op::Shl | Op::Shr => if rng.chance(1, 6) { rand_tree(rng, depth - 1, 3) } else { small_int_lit(rng, -70, 130) },
                Op::And | Op::Or | Op::Xor if rng.chance(3, 4) => int_tree(rng, depth - 1, max_digits),
                _ => rand_tree(rng, depth - 1, max_digits),
            };
            let l = match op { Op::And | Op::Or | Op::Xor if rng.chance(3, 4) => int_tree(rng, depth - 1, max_digits), _ => l };
            A::Bin(op, Box::new(l), Box::new(r))
        }
    }
}

/// trees that are integer-valued by construction (so bit operators are exercised on their success path)
fn int_tree(rng: &mut Rng, depth: u32, max_digits: usize) -> A {
    let lit = |rng: &mut Rng| {
        let nd = 1 + rng.below(max_digits as u64) as usize;
        let ds: String = (0..nd).map(|_| char::from(b'0' + rng.below(10) as u8)).collect();
        let l = A::Lit(BigRational::from_integer(BigInt::parse_bytes(ds.as_bytes(), 10).unwrap()), ds);
        if rng.chance(1, 3) { A::Neg(Box::new(l)) } else { l }
    };
    if depth == 0 || rng.chance(1, 3) { return lit(rng); }
    let op = *rng.pick(&[Op::Add, Op::Sub, Op::Mul, Op::Juxt, Op::And, Op::Or, Op::Xor, Op::Shl]);
    let l = int_tree(rng, depth - 1, max_digits);
    let r = if op == Op::Shl { small_int_lit(rng, 0, 90) } else { int_tree(rng, depth - 1, max_digits) };
    A::Bin(op, Box::new(l), Box::new(r))
}

fn boundary_alphabet() -> Vec<A> {
    let lit = |n: &str, d: &str, s: &str| A::Lit(BigRational::new(n.parse().unwrap(), d.parse().unwrap()), s.to_string());
    vec![
        lit("0", "1", "0"), lit("1", "1", "1"), A::Neg(Box::new(lit("1", "1", "1"))), lit("2", "1", "2"),
        lit("1", "2", "0.5"), lit("7", "3", "(7|3)"), lit("18446744073709551617", "1", "18446744073709551617"),
        lit("18446744073709551615", "1", "0xffffffffffffffff"), lit("1", "1000000000", "1e-9"),
        A::Neg(Box::new(lit("7", "2", "3.5"))), lit("3", "1", "3"),
    ]
}

pub fn emit(e: &A, rng: &mut Rng, req: &mut impl Write, exp: &mut impl Write, stats: &mut Stats) {
    let mut text = String::new();
    render(e, 0, rng, &mut text);
    if rng.chance(1, 10) { text = format!("  {} ", text); }
    if text.chars().count() > 480 { stats.too_long += 1; return; }
    let v = match spec(e) { Ok(v) => v, Err(Huge) => { stats.skipped_huge += 1; return; } };
    writeln!(req, "{}", req_line(&text)).unwrap();
    match &v {
        Some(v) => { writeln!(exp, "number {}/{} -", v.numer(), v.denom()).unwrap(); stats.defined += 1; }
        None => { writeln!(exp, "err").unwrap(); stats.undefined += 1; }
    }
    stats.total += 1;
    if stats.samples.len() < 10 && stats.total % 397 == 1 { stats.samples.push(text); }
}

#[derive(Default)]
pub struct Stats { pub total: u64, pub defined: u64, pub undefined: u64, pub skipped_huge: u64, pub too_long: u64, pub samples: Vec<String>, pub ops: std::collections::BTreeMap<String, u64> }

fn count_ops(e: &A, m: &mut std::collections::BTreeMap<String, u64>) {
    match e {
        A::Lit(..) => { *m.entry("lit".into()).or_insert(0) += 1; }
        A::Neg(x) => { *m.entry("neg".into()).or_insert(0) += 1; count_ops(x, m); }
        A::Pos(x) => { *m.entry("pos".into()).or_insert(0) += 1; count_ops(x, m); }
        A::Bin(op, l, r) => { *m.entry(format!("{:?}", op)).or_insert(0) += 1; count_ops(l, m); count_ops(r, m); }
    }
}

pub fn run(o: &Opts) -> i32 {
    let mut req = o.writer("req.txt");
    let mut exp = o.writer("expect.txt");
    let mut rng = Rng::new(o.seed);
    let mut st = Stats::default();
    let alpha = boundary_alphabet();

    // corpus: witnesses of past defects, always first
    let corpus_path = format!("{}/../../../corpus/C01/queries.txt", o.out);
    let _ = corpus_path;

    // fixed texts with their exact values: exponent literals directly followed by a signed number; zero over zero
    for (t, v) in [("1e2+3", "103/1"), ("1e-1+1", "11/10"), ("2e1+1e1+5", "35/1"), ("1E5-3", "99997/1"), ("1e2+3e1", "130/1"), ("5e0+0", "5/1"), ("1e+2+3", "103/1"), ("1e2-3", "97/1"),
                   ("1e2+3_0", "130/1"), ("1.5e1+2.5e1", "40/1"), ("0/0", "err"), ("(1-1)/(2-2)", "err"), ("0|0", "err"), ("5*0/0", "err"), ("0 / (3 mod 3)", "err"), ("0 mod 0", "err"), ("0^-1", "err"), ("0/5", "0/1")] {
        writeln!(req, "{}", req_line(t)).unwrap();
        if v == "err" { writeln!(exp, "err").unwrap(); st.undefined += 1; } else { writeln!(exp, "number {} -", v).unwrap(); st.defined += 1; }
        st.total += 1;
    }
    // 1. bounded-exhaustive: every 1-operator tree over the boundary alphabet (both operand orders)
    for op in OPS {
        for l in &alpha { for r in &alpha {
            let e = A::Bin(op, Box::new(l.clone()), Box::new(r.clone()));
            count_ops(&e, &mut st.ops);
            emit(&e, &mut rng, &mut req, &mut exp, &mut st);
        } }
    }
    // 2-operator trees: exhaustive in thorough, sampled in quick
    let two_op_samples = if o.thorough { usize::MAX } else { 6000 };
    let mut n2 = 0usize;
    'outer: for op1 in OPS { for op2 in OPS {
        for a in &alpha { for b in &alpha { for c in &alpha {
            if !o.thorough && !rng.chance(1, 70) { continue; }
            let left = A::Bin(op1, Box::new(A::Bin(op2, Box::new(a.clone()), Box::new(b.clone()))), Box::new(c.clone()));
            let right = A::Bin(op1, Box::new(a.clone()), Box::new(A::Bin(op2, Box::new(b.clone()), Box::new(c.clone()))));
            for e in [left, right] { count_ops(&e, &mut st.ops); emit(&e, &mut rng, &mut req, &mut exp, &mut st); }
            n2 += 2;
            if n2 >= two_op_samples { break 'outer; }
        } } }
    } }
    // 2. random trees: moderate operands
    let nrand = if o.thorough { 200_000 } else { 8_000 };
    for _ in 0..nrand {
        let depth = 1 + rng.below(5) as u32;
        let e = rand_tree(&mut rng, depth, 12);
        count_ops(&e, &mut st.ops);
        emit(&e, &mut rng, &mut req, &mut exp, &mut st);
    }
    // 3. random trees: operands of hundreds to thousands of bits
    let nbig = if o.thorough { 20_000 } else { 1_500 };
    for _ in 0..nbig {
        let d = 1 + rng.below(2) as u32; let e = rand_tree(&mut rng, d, 140);
        count_ops(&e, &mut st.ops);
        emit(&e, &mut rng, &mut req, &mut exp, &mut st);
    }
    req.flush().unwrap(); exp.flush().unwrap();
    crate::util::write_json(&format!("{}/stats.json", o.out), &serde_json::json!({
        "total": st.total, "defined": st.defined, "undefined": st.undefined, "skipped_huge": st.skipped_huge,
        "too_long": st.too_long, "samples": st.samples, "operators": st.ops,
    }));
    0
}
