pub fn run(_o: &crate::util::Opts) -> i32 { 0 }
