//! C15 stream: histories of queries on one context (`ans` is the only carried state).
use crate::evalsess::req_line;
use crate::gen_units::Db;
use crate::util::{Opts, Rng};
use serde_json::json;
use std::io::Write;

fn plain(db: &Db, rng: &mut Rng) -> String {
    match rng.below(12) {
        0 => format!("{} + {}", 1 + rng.below(50), rng.below(50)),
        1 => format!("{}|{}", 1 + rng.below(30), 1 + rng.below(30)),
        2 => format!("{} {}", 1 + rng.below(20), db.rand_name(rng)),
        3 => format!("{} {} / ({} {})", 1 + rng.below(20), db.rand_name(rng), 1 + rng.below(9), db.rand_name(rng)),
        4 => format!("{} hours", 1 + rng.below(30)),                 // a time value: shown as a duration breakdown
        5 => format!("2^{}", rng.below(70)),
        6 => "ans * 2".into(),
        7 => "ans + 1".into(),
        8 => "_ / 3".into(),
        9 => "ANS".into(),
        10 => format!("ans {}", db.rand_name(rng)),
        _ => format!("-{}", 1 + rng.below(1000)),
    }
}

fn other(db: &Db, rng: &mut Rng) -> String {
    match rng.below(28) {
        // the clock is read on every query, wherever `now` stands in it
        // a result that is not a finite number is a result like any other: `ans` denotes it
        26 => (*rng.pick(&["asin(2)", "ln(-1)", "exp(1000)", "-exp(1000)", "ln(0)", "acos(5) + 1"])).into(),
        27 => "ans".into(),
        24 => (*rng.pick(&["sqrt(((now - #2000-01-01 00:00:00 +00:00#)/s)^2)", "hypot((now - #2000-01-01 00:00:00 +00:00#)/s, 0)", "exp(ln((now - #2000-01-01 00:00:00 +00:00#)/s))"])).into(),
        25 => "now".into(),
        // a conversion that only changes the notation of a *new* number must not touch `ans`
        16 => format!("{} to {}", 2 + rng.below(5000), rng.pick(&["hex", "oct", "bin", "base 7", "sci", "eng", "frac", "digits 12", "digits"])),
        17 => format!("{}|{} -> {}", 1 + rng.below(50), 1 + rng.below(50), rng.pick(&["frac", "digits 20", "base 12", "sci"])),
        18 => format!("{} {} -> {}", 1 + rng.below(9), db.rand_name(rng), rng.pick(&["hex", "sci", "digits 8"])),
        // names that are resolved on the fly (chemical formulas, substances): nothing may be left behind in the database
        19 => (*rng.pick(&["C2H6O", "NaCl", "H2O2", "C8H10N4O2", "CH3COOH", "Fe2O3"])).into(),
        20 => format!("molar_mass of {}", rng.pick(&["C2H6O", "NaCl", "H2O2", "water", "gold"])),
        // an unknown name (the error suggests one similar name) and, in the same session, a search for it (five results)
        21 => format!("search {}", rng.pick(&["C2H6O", "NaCl", "meter", "H2O2", "gold", "meterz", "kilogramm", "secnd", "joul"])),
        22 => if rng.chance(1, 2) { (*rng.pick(&["C2H6Oo", "NaCll", "nosuchh", "H2O22x"])).into() } else { format!("{} {} + 1", 1 + rng.below(9), rng.pick(&["meterz", "kilogramm", "secnd", "joul"])) },
        23 => format!("{} water", 1 + rng.below(9)),
        0 => format!("{} {} -> {}", 1 + rng.below(9), db.rand_name(rng), db.rand_name(rng)),   // conversion (often an error)
        1 => "12 ft -> m".into(),
        2 => "ans -> 1".into(),
        3 => "ans m -> ft".into(),
        4 => db.rand_name(rng),                               // definition lookup
        5 => "meter".into(),
        6 => "units for length".into(),
        7 => "factorize velocity".into(),
        8 => "search meter".into(),
        9 => "nosuchunit_zz".into(),                          // not found
        10 => "1 m + 1 s".into(),                             // generic error
        11 => "1 / 0".into(),
        12 => "ans -> digits 20".into(),
        13 => "1 hour -> minute;second".into(),
        14 => "((".into(),
        _ => "100 degC -> degF".into(),
    }
}

pub fn run(o: &Opts) -> i32 {
    let db = Db::new();
    let mut rng = Rng::new(o.seed);
    let mut req = o.writer("req.txt");
    let mut aux = o.writer("aux.txt");
    let nsess = if o.thorough { 6000 } else { 500 };
    let mut total = 0u64;
    let mut samples: Vec<Vec<String>> = vec![];
    let mut emit = |l: String, a: serde_json::Value| { writeln!(req, "{}", l).unwrap(); writeln!(aux, "{}", a).unwrap(); };
    // corpus first
    let fixed: Vec<Vec<&str>> = vec![
        vec!["1+1", "3 hours", "ans"], vec!["0", "1 -> ans;ans"], vec!["ans"], vec!["5", "nosuch", "ans"], vec!["5", "meter", "ans"],
        vec!["5", "10 m -> ft", "ans"], vec!["2 m", "ans^2", "ans -> ft^2", "ans"],
        vec!["3^700 + 1", "ans - 3^700"], vec!["7^400 / 3^300", "ans * 3^300 - 7^400"], vec!["2^5000 m", "ans / 2^4999"], vec!["1|3^900", "1 / ans - 3^900"],
        vec!["(now - #2000-01-01 00:00:00 +00:00#)/s", "(now - #2000-01-01 00:00:00 +00:00#)/s", "1 + 1", "(now - #2000-01-01 00:00:00 +00:00#)/s"],
        vec!["2 m", "asin(2)", "ans"], vec!["3", "ln(-1)", "ans + 1"], vec!["7 kg", "exp(1000)", "ans"], vec!["4", "ln(0)", "ans", "ans * 0"],
    ];
    for s in &fixed {
        emit("reset".into(), json!({"k": "reset"}));
        emit("regdigest".into(), json!({"k": "digest"}));
        for q in s { emit(req_line(q), json!({"k": "q", "text": q, "flag": true})); total += 1; }
        emit("regdigest".into(), json!({"k": "digest"}));
    }
    // the caller's clock: wherever a previous query or the caller left it, the next query reads the system clock
    for secs in [32_000_000_000i64, 1_000_000, -5_000_000_000, 0, 1_900_000_000] {
        emit("reset".into(), json!({"k": "reset"}));
        emit(format!("settime {}", secs), json!({"k": "settime"}));
        for q in ["hypot((now - #2000-01-01 00:00:00 +00:00#)/s, 0)", "1 + 1", "sqrt(((now - #2000-01-01 00:00:00 +00:00#)/s)^2)"] { emit(req_line(q), json!({"k": "q", "text": q, "flag": true})); total += 1; }
    }
    for k in 0..nsess {
        emit("reset".into(), json!({"k": "reset"}));
        emit("regdigest".into(), json!({"k": "digest"}));
        let mut flag = true;
        if rng.chance(1, 5) { flag = false; emit("ans off".into(), json!({"k": "flag", "on": false})); }
        let len = 3 + rng.below(20);
        let mut sess = vec![];
        for _ in 0..len {
            if rng.chance(1, 15) { flag = !flag; emit(format!("ans {}", if flag { "on" } else { "off" }), json!({"k": "flag", "on": flag})); }
            let q = if rng.chance(1, 2) { plain(&db, &mut rng) } else { other(&db, &mut rng) };
            emit(req_line(&q), json!({"k": "q", "text": q, "flag": flag}));
            sess.push(q);
            total += 1;
        }
        emit("regdigest".into(), json!({"k": "digest"}));
        if samples.len() < 6 && k % 97 == 0 { samples.push(sess.into_iter().take(8).collect()); }
    }
    drop(emit);
    req.flush().unwrap(); aux.flush().unwrap();
    crate::util::write_json(&format!("{}/stats.json", o.out), &json!({"sessions": nsess + fixed.len(), "queries": total, "samples": samples}));
    0
}
